"""Fail-closed translator for omega/symbolic/logicizer.py and the helpers it
uses from omega/logic/syntax.py (tie T for C20).

Reads the CURRENT source text with `ast` (never imports omega) and turns

  logicizer.py  _graph_to_formulas, _sys_trans, _env_trans,
                _env_trans_from_sys_ts, _node_var_trans, _init_from_ts,
                _to_action, _assign, _prime_dict, _pstr, _nodevar_dom,
                _add_expr, graph_to_logic
  syntax.py     conj, disj, _associative_op, _recurse_op

into Gallina (coq/gen/LogicizerGen.v; the fixed prelude is the HEADER below).
coq/GenProofs/LogicizerBridge.v proves the generated terms equal to the
hand-written model coq/theories/L6Graph/{Formula,Logicizer}.v on every run.

Data abstraction (shared with the model and with tools/vlib/graph_gen.py,
which reads the networkx object into the same record):
  the graph `g`          the record Logicizer.tsys: g.nodes(data=True),
                         g.edges(data=True), g.initial_nodes, g.owner,
                         g.vars (keys), g.env_vars; `for u in g`,
                         g.edges(u, data=True) / g.out_edges(u, data=True)
                         (the entries leaving u), g.succ.get(u), len/min/max
  a variable name        a number; a dictionary key that names a variable is
                         (primed?, name); stx.prime sets the flag
  a label dict           its optional 'formula' entry + the other entries in
                         dictionary order; `t[k] = v` replaces or appends
  dicts name -> hint     their keys in insertion order (type hints erased)
  a formula STRING       a formula TREE (Formula.form) over opaque label
                         atoms, through the fixed table TEMPLATES of
                         recognised f-strings / concatenations (printed in
                         the generated file with the tree each is read as);
                         '' is None among possibly-empty strings; a string
                         known to be 'TRUE' or 'FALSE' has kind `tf` and is
                         the only thing `==` may compare a string with
  sep (white space)      erased;  op / glue  ->  the operator (type gop)
Kinds are tracked statically (str, cstr = parenthesised, tf, ostr = possibly
empty, lists / sets / int-keyed dicts of them, nat, Z, bool, key, label ...);
a kind error, an unknown template, an unknown statement or expression form,
a changed signature: Refuse.

Statements are compiled in continuation style: assignments (also tuple and
`d[k] = v`), `x.append/extend/add/update`, `if` (a tuple of the variables it
changes, or both continuations when a branch returns / continues / raises;
`if 'formula' in d` is a match on the optional entry), `for` (fold_left over
the variables it changes that are read later, in source order; `continue`),
`return`, comprehensions (map / filter), `raise` and translatable `assert`
(-> `raise_ default`: the bridge theorems assume the condition under which
the code does not raise), recursion with fuel (`_recurse_op`; the bridge
proves any fuel above b - a gives the model's value).
Conditions on a type hint or on the text of a value (`_assign`) are opaque:
all non-raising branches must be read as the SAME tree.
A Python set of strings is the list of its insertions; when iterated it goes
through the parameter `set_order` (order and removal of duplicates arbitrary:
the bridge proves the meaning does not depend on it).
Nothing is dropped silently: logging, untranslated assertions, erased values
and every abstraction used are listed as notes at the end of the generated
file and in the evidence.
"""
import ast
import os
import sys

sys.path.insert(0, os.path.dirname(os.path.abspath(__file__)))
from py2coq import Refuse, _src, _dotted  # noqa: E402

LZ_SRC = 'omega/symbolic/logicizer.py'
STX_SRC = 'omega/logic/syntax.py'

L_STR = ('list', 'str')
# function -> (module, [(parameter, kind)], return kind).  Kinds:
#   graph var key bool Z nat str cstr tf ostr label kdict kmap ws opk glue
#   aut hint valtext adj none ('list', K) ('set', K) ('dict', K)
#   ('tuple', K1, ..., Kn)
SIGS = {
    '_pstr': ('lz', [('x', 'str')], 'cstr'),
    '_assign': ('lz', [('k', 'key'), ('v', 'Z'), ('dvars', 'kdict')], 'cstr'),
    '_prime_dict': ('lz', [('d', 'kdict')], ('tuple', 'kdict', 'kmap')),
    '_to_action': ('lz', [('d', 'label'), ('dvars', 'kdict')], 'str'),
    '_nodevar_dom': ('lz', [('g', 'graph')], ('tuple', 'Z', 'Z')),
    '_init_from_ts': ('lz', [('initial_nodes', ('list', 'Z')),
                             ('nodevar', 'var'), ('dvars', 'kdict'),
                             ('ignore_initial', 'bool')], L_STR),
    '_node_var_trans': ('lz', [('g', 'graph'), ('nodevar', 'var'),
                               ('dvars', 'kdict')],
                        ('tuple', L_STR, L_STR)),
    '_sys_trans': ('lz', [('g', 'graph'), ('nodevar', 'var'),
                          ('dvars', 'kdict')], 'str'),
    '_env_trans_from_sys_ts': ('lz', [('g', 'graph'), ('nodevar', 'var'),
                                      ('dvars', 'kdict')], 'str'),
    '_env_trans': ('lz', [('g', 'graph'), ('nodevar', 'var'),
                          ('dvars', 'kdict'), ('self_loops', 'bool')], 'str'),
    '_graph_to_formulas': ('lz', [('g', 'graph'), ('nodevar', 'var'),
                                  ('ignore_initial', 'bool'),
                                  ('receptive', 'bool'),
                                  ('self_loops', 'bool')],
                           ('tuple', L_STR, L_STR, L_STR, L_STR)),
    '_add_expr': ('lz', [('c', L_STR), ('aut', 'aut')], 'str'),
    'graph_to_logic': ('lz', [('g', 'graph'), ('nodevar', 'var'),
                              ('ignore_initial', 'bool'),
                              ('receptive', 'bool'), ('self_loops', 'bool'),
                              ('aut', 'none')], 'aut'),
    '_recurse_op': ('stx', [('a', 'nat'), ('b', 'nat'), ('h', L_STR),
                            ('true', 'tf'), ('false', 'tf'),
                            ('glue', 'glue')], 'str'),
    '_associative_op': ('stx', [('iterable', ('list', 'ostr')),
                                ('op', 'opk'), ('sep', 'ws')], 'str'),
    'conj': ('stx', [('iterable', ('list', 'ostr')), ('sep', 'ws'),
                     ('op', 'opk')], 'str'),
    'disj': ('stx', [('iterable', ('list', 'ostr')), ('sep', 'ws'),
                     ('op', 'opk')], 'str'),
}
ORDER = ['_recurse_op', '_associative_op', 'conj', 'disj',
         '_pstr', '_assign', '_prime_dict', '_to_action', '_nodevar_dom',
         '_init_from_ts', '_node_var_trans', '_sys_trans',
         '_env_trans_from_sys_ts', '_env_trans', '_graph_to_formulas',
         '_add_expr', 'graph_to_logic']
# recursive functions: fuel given at outside calls, from the arguments
FUEL = {'_recurse_op': lambda a: f'(S ({a[1]} - {a[0]}))'}
ERASED = ('ws', 'aut', 'none')          # parameters without a Gallina value
OPS = {'/\\': 'OpConj', '\\/': 'OpDisj', '&': 'OpAmp', '|': 'OpBar'}
OPS_TREE = {'/\\': 'FAnd', '\\/': 'FOr', '&': 'FAnd', '|': 'FOr'}

# assertions that are not translated (reported as notes)
DROPPED_ASSERTS = {
    'g.assert_consistent()':
        'consistency of the networkx object (initial nodes and end points '
        'are nodes): the hypothesis wf_graph of the theorems about runs',
    'all((isinstance(u, int) for u in g))':
        'typing: node ids are integers (Z in the graph record)',
}
SKIP_CALLS = ('logger.debug', 'logger.info', 'logger.warning',
              'warnings.warn')

# ---- the recognised string templates --------------------------------------
# (literal pieces around the holes, kinds required of the holes, holes that
#  must be the same expression, tree, kind of the result)
TEMPLATES = [
    (('(', ') \\/ (', "' = ", ')'), ('str', 'var', 'var'), (1, 2),
     'FOr {0} (FStutter {1})', 'str'),
    (('~ (', ') \\/ (', ')'), ('str', 'str'), None,
     'FOr (FNot {0}) {1}', 'str'),
    (('(((', ') => (', "))')"), ('str', 'str'), None,
     'FPrime (FImp {0} {1})', 'cstr'),
    (('(', ') => False'), ('str',), None, 'FImp {0} FFalse', 'str'),
    (('(', ') => (', ')'), ('str', 'str'), None, 'FImp {0} {1}', 'str'),
    (('((', ') => (', '))'), ('str', 'str'), None, 'FImp {0} {1}', 'cstr'),
    (('', ' => False'), ('cstr',), None, 'FImp {0} FFalse', 'str'),
    (('(', ')'), ('str',), None, '{0}', 'cstr'),
    # _assign: the dispatch on the type hint is erased, all three read as
    # the atom "variable k has value v" (Booleans are 0/1 in the record)
    (('', ' <=> ', ''), ('key', 'valtext'), None,
     'FAsg (fst {0}) (snd {0}) {1}', 'str'),
    (('', ' = ', ''), ('key', 'Z'), None,
     'FAsg (fst {0}) (snd {0}) {1}', 'str'),
    (('', ' = "', '"'), ('key', 'Z'), None,
     'FAsg (fst {0}) (snd {0}) {1}', 'str'),
]
# string concatenations
#   ') ' + sep + op + ' ('           the glue of an operator (sep whitespace)
#   '(' + x + glue + y + ')'         ({x}) sep op ({y})  ->  gop_mk op x y
CONST_STR = {'TRUE': ('FTrue', 'tf'), 'FALSE': ('FFalse', 'tf')}


def template_table_comment():
    out = ['(* ---- recognised string templates (anything else is refused) ',
           '   template                              read as']
    for lits, kinds, same, tree, res in TEMPLATES:
        names = []
        for i in range(len(kinds)):
            j = i
            if same and i == same[1]:
                j = same[0]
            names.append('{%s%d}' % ('c' if kinds[i] == 'cstr' else '', j))
        s = lits[0]
        for n, l in zip(names, lits[1:]):
            s += n + l
        t = tree
        out.append('   %-38s %s%s' % (
            s.replace('"', "''"), t,
            '   [parenthesised]' if res == 'cstr' else ''))
    out.append("   'TRUE'                                 FTrue")
    out.append("   'FALSE'                                FFalse")
    out.append("   ') ' + sep + op + ' ('                 the operator op "
               "(sep: white space only)")
    for o, t in OPS_TREE.items():
        out.append("   '(' + {0} + ') ' + sep + '%s' + ' (' + {1} + ')'"
                   % o + '   %s {0} {1}' % t)
    out.append('   {c0}: the hole must be a parenthesised string '
               '(result of _pstr / _assign).')
    out.append("   Every composite template contains '(' or ' ', so it is "
               "never equal to 'TRUE' or 'FALSE'. *)")
    return '\n'.join(out) + '\n'


def comment(s):
    return (s.replace('"', "'").replace('(*', '( *').replace('*)', '* )')
            .replace('\n', ' '))


# ---- kinds -----------------------------------------------------------------
STRS = ('str', 'cstr', 'tf')


def coq_type(k):
    if k in STRS:
        return 'form'
    if k == 'ostr':
        return 'option form'
    simple = {'graph': 'tsys', 'var': 'var', 'key': 'key', 'bool': 'bool',
              'Z': 'Z', 'nat': 'nat', 'label': 'label', 'kdict': 'list key',
              'kmap': 'list (key * key)', 'opk': 'gop', 'glue': 'gop',
              'aut': 'gaut', 'adj': 'bool', 'valtext': 'Z'}
    if k in simple:
        return simple[k]
    if isinstance(k, tuple):
        if k[0] in ('list', 'set'):
            if k[1] is None:
                raise Refuse('a list whose element kind is unknown')
            return f'list ({coq_type(k[1])})'
        if k[0] == 'dict':
            return f'list (Z * ({coq_type(k[1])}))'
        if k[0] == 'tuple':
            return '(' + ' * '.join(f'({coq_type(x)})' for x in k[1:]) + ')'
    raise Refuse(f'no Gallina type for kind {k}')


def join(a, b):
    """Least kind above both (None = unknown)."""
    if a is None:
        return b
    if b is None or a == b:
        return a
    if a in STRS and b in STRS:
        return 'str'
    if (a in STRS or a == 'ostr') and (b in STRS or b == 'ostr'):
        return 'ostr'
    if isinstance(a, tuple) and isinstance(b, tuple) and a[0] == b[0] \
            and len(a) == len(b):
        return (a[0],) + tuple(join(x, y) for x, y in zip(a[1:], b[1:]))
    raise Refuse(f'kinds {a} and {b} do not agree')


def default_of(k):
    if k in STRS:
        return 'FTrue'
    if k == 'ostr':
        return 'None'
    if isinstance(k, tuple) and k[0] in ('list', 'set', 'dict'):
        return '[]'
    if k in ('kdict', 'kmap'):
        return '[]'
    if isinstance(k, tuple) and k[0] == 'tuple':
        return '(' + ', '.join(default_of(x) for x in k[1:]) + ')'
    if k == 'Z':
        return '0%Z'
    if k == 'nat':
        return '0'
    if k == 'bool':
        return 'false'
    raise Refuse(f'no default value of kind {k}')

HEADER = r'''(* GENERATED by tools/py2coq_logicizer.py from
     omega/symbolic/logicizer.py : %(lz)s
     omega/logic/syntax.py       : %(stx)s
   in the working tree of the omega repository.
   Do not edit; regenerated on every check run.

   Python locals are prefixed with v_; functions of logicizer.py with lz_,
   of syntax.py with stx_.  Strings that are formulas are TREES over the
   alphabet of L6Graph/Formula.v (label formulas are opaque atoms); the
   table of recognised string templates is printed below, with the tree
   each one is read as.  See tools/py2coq_logicizer.py for the subset and
   the notes at the end for everything that was skipped. *)
From Coq Require Import List Bool ZArith Arith.
Import ListNotations.
From Omega Require Import L6Graph.Formula L6Graph.Logicizer.

Section Gen.
Variables EL NL : Type.
Local Notation form := (form EL NL).
Local Notation tsys := (tsys EL NL).

(* ---- fixed prelude: the meaning of the Python constructs used ---------- *)
(* a dictionary key that is a variable name: (primed?, name) *)
Definition key : Type := (bool * var)%%type.
Definition key_eqb (a b : key) : bool :=
  Bool.eqb (fst a) (fst b) && Nat.eqb (snd a) (snd b).
Definition key_mem (k : key) (l : list key) : bool := existsb (key_eqb k) l.
(* stx.prime(k) = k + "'" (its assertion `not isprimed(k)`: fst k = false) *)
Definition key_prime (k : key) : key := (true, snd k).
(* `k in g.env_vars`: the set holds unprimed names *)
Definition key_in_vars (k : key) (l : list var) : bool :=
  negb (fst k) && mem (snd k) l.
(* dictionaries from variable keys to type hints: the keys, in insertion
   order (the hints are erased) *)
Definition kdict_set (d : list key) (k : key) : list key :=
  if key_mem k d then d else d ++ [k].
Definition kdict_update (d p : list key) : list key := fold_left kdict_set p d.
Definition vars_keys (l : list var) : list key := map (fun k => (false, k)) l.

(* a label dictionary: the optional 'formula' entry ('' is None inside) and
   the other entries in dictionary order *)
Record label : Type := {
  l_formula : option (option form);
  l_items : list (key * Z) }.
Fixpoint items_set (l : list (key * Z)) (k : key) (v : Z) : list (key * Z) :=
  match l with
  | [] => [(k, v)]
  | kv :: r => if key_eqb (fst kv) k then (fst kv, v) :: r
               else kv :: items_set r k v
  end.
(* t[k] = v *)
Definition label_set (d : label) (k : key) (v : Z) : label :=
  {| l_formula := l_formula d; l_items := items_set (l_items d) k v |}.
(* {k: v for k, v in d.items() if p(k)}; the 'formula' entry is kept iff
   [keepf] (the value of p at the key 'formula', which is no variable) *)
Definition label_filter (keepf : bool) (p : key -> bool) (d : label) : label :=
  {| l_formula := if keepf then l_formula d else None;
     l_items := filter (fun kv => p (fst kv)) (l_items d) |}.

(* reading of the networkx graph (same record as the model) *)
Definition label_of_e (d : elabel EL) : label :=
  {| l_formula := e_item d;
     l_items := e_asg d |}.
Definition label_of_n (d : nlabel NL) : label :=
  {| l_formula := n_item d;
     l_items := map (fun kv => ((false, fst kv), snd kv)) (n_asg d) |}.
(* `for u in g` *)
Definition graph_nodes (g : tsys) : list Z := map fst (ts_nodes g).
(* g.nodes(data=True) *)
Definition graph_nodes_data (g : tsys) : list (Z * label) :=
  map (fun n => (fst n, label_of_n (snd n))) (ts_nodes g).
(* g.edges(u, data=True), g.out_edges(u, data=True) *)
Definition graph_edges_from (g : tsys) (u : Z) : list (Z * Z * label) :=
  map (fun e => (fst (fst e), snd (fst e), label_of_e (snd e)))
      (filter (fun e => Z.eqb (fst (fst e)) u) (ts_edges g)).
(* truth value of g.succ.get(u) *)
Definition graph_has_succ (g : tsys) (u : Z) : bool :=
  existsb (fun e => Z.eqb (fst (fst e)) u) (ts_edges g).

(* the operators of syntax.SUPPORTED_OPERATORS; a `glue` string
   ') ' + sep + op + ' (' is represented by its operator *)
Inductive gop : Type := OpConj | OpDisj | OpAmp | OpBar.
Definition gop_eqb (a b : gop) : bool :=
  match a, b with
  | OpConj, OpConj | OpDisj, OpDisj | OpAmp, OpAmp | OpBar, OpBar => true
  | _, _ => false
  end.
Definition gop_in (a : gop) (l : list gop) : bool := existsb (gop_eqb a) l.
Definition gop_mk (o : gop) : form -> form -> form :=
  match o with OpConj | OpAmp => FAnd | OpDisj | OpBar => FOr end.

(* x == c for c one of the strings 'TRUE', 'FALSE' (every other string of
   the template table contains a character outside these two words, and a
   label atom is by its reading none of '', 'TRUE', 'FALSE') *)
Definition str_is (x c : form) : bool :=
  match c with
  | FTrue => is_FTrue x
  | FFalse => is_FFalse x
  | _ => false
  end.

Definition bit_length (n : nat) : nat :=
  match n with O => O | _ => S (Nat.log2 n) end.
Definition is_nil {A} (l : list A) : bool :=
  match l with [] => true | _ => false end.
Definition is_some {A} (o : option A) : bool :=
  match o with Some _ => true | None => false end.
(* a `raise` / failed `assert`: the value is immaterial, the bridge
   theorems assume the condition under which the code does not raise *)
Definition raise_ {A} (x : A) : A := x.
Definition out_of_fuel {A} (x : A) : A := x.
Definition list_min (l : list Z) : Z :=
  match l with [] => 0%%Z | u :: r => fold_left Z.min r u end.
Definition list_max (l : list Z) : Z :=
  match l with [] => 0%%Z | u :: r => fold_left Z.max r u end.
(* a dict with integer keys: d[k] = v, d.values() *)
Fixpoint zdict_set {A} (d : list (Z * A)) (k : Z) (v : A) : list (Z * A) :=
  match d with
  | [] => [(k, v)]
  | kv :: r => if Z.eqb (fst kv) k then (k, v) :: r
               else kv :: zdict_set r k v
  end.

(* iteration order (and removal of duplicates) of a Python set of strings:
   any function with  In x (set_order l) <-> In x l  *)
Variable set_order : list form -> list form.

(* the automaton fields written by graph_to_logic *)
Record gaut : Type := {
  a_nd_dom : Z * Z;
  a_env_vars : list var; a_sys_vars : list var;
  a_env_init : form; a_sys_init : form;
  a_env_action : form; a_sys_action : form }.

'''

FOOTER = '''
End Gen.
'''



class Fn:
    def __init__(self, name, node):
        self.name = name
        self.node = node
        self.mod, self.params, self.ret = SIGS[name]
        self.coq = ('lz_' if self.mod == 'lz' else 'stx_') + name.lstrip('_')
        a = node.args
        if a.vararg or a.kwarg or a.kwonlyargs or a.posonlyargs:
            raise Refuse(f'{name}: unsupported signature')
        names = [x.arg for x in a.args]
        if names != [p for p, _ in self.params]:
            raise Refuse(f'{name}: parameters {names} differ from the '
                         f'expected {[p for p, _ in self.params]}')
        nd = len(a.defaults)
        self.defaults = dict(zip(names[len(names) - nd:], a.defaults))
        self.recursive = name in FUEL


def v(name):
    return 'v_' + name


class Translator:
    def __init__(self, lz_path, stx_path):
        self.notes = []
        self.elem = {}            # (function, variable) -> element kind
        self.strict = True
        self.probe = 0
        self.used_templates = set()
        self.mods = {}
        self.consts = {}
        for mod, path in (('lz', lz_path), ('stx', stx_path)):
            with open(path) as f:
                tree = ast.parse(f.read())
            self.mods[mod] = {n.name: n for n in tree.body
                              if isinstance(n, ast.FunctionDef)}
            for n in tree.body:
                if isinstance(n, ast.Assign) and len(n.targets) == 1 \
                        and isinstance(n.targets[0], ast.Name):
                    self.consts[(mod, n.targets[0].id)] = n.value
            if mod == 'lz':
                self._check_imports(tree)
        self.fns = {}
        for name in ORDER:
            mod = SIGS[name][0]
            if name not in self.mods[mod]:
                raise Refuse(f'function {name} not found')
            self.fns[name] = Fn(name, self.mods[mod][name])

    def _check_imports(self, tree):
        ok = False
        for n in tree.body:
            if isinstance(n, ast.Import):
                for a in n.names:
                    if a.name == 'omega.logic.syntax' and a.asname == 'stx':
                        ok = True
        if not ok:
            raise Refuse('logicizer.py: `import omega.logic.syntax as stx` '
                         'not found')

    def note(self, s):
        if not self.probe and s not in self.notes:
            self.notes.append(s)

    # ------------------------------------------------------------ coercion
    def coerce(self, t, k, want, what=''):
        if want is None or k == want:
            return t
        if k in STRS and want in STRS:
            if want == 'str' or (want == 'cstr' and k == 'tf'):
                return t
        if k in STRS and want == 'ostr':
            return f'(Some {t})'
        if k == 'var' and want == 'key':
            return f'(false, {t})'
        if isinstance(k, tuple) and isinstance(want, tuple):
            if k[0] in ('list', 'set') and want[0] == 'list':
                if k[0] == 'set':
                    if k[1] is not None and k[1] not in STRS:
                        raise Refuse('iteration over a set of ' + str(k[1]))
                    self.note('iteration over a Python set of strings: '
                              'through the parameter set_order (order and '
                              'removal of duplicates are arbitrary)')
                    t = f'(set_order {t})'
                if k[1] is None:
                    if t.startswith('v_') and t[2:].isidentifier() \
                            and want[1] is not None and self.elem.get(
                                (self.fn.name, t[2:])) is None:
                        self.learn(t[2:], want[1])
                    return t if k[0] == 'set' else '[]'
                if k[1] == want[1] or want[1] is None:
                    return t
                inner = self.coerce('x', k[1], want[1], what)
                if inner == 'x':
                    return t
                return f'(map (fun x => {inner}) {t})'
            if k[0] == 'tuple' and want[0] == 'tuple' and len(k) == len(want):
                xs = [f'x{i}' for i in range(len(k) - 1)]
                ys = [self.coerce(x, a, b, what)
                      for x, a, b in zip(xs, k[1:], want[1:])]
                if ys == xs:
                    return t
                return (f"(let '({', '.join(xs)}) := {t} in "
                        f"({', '.join(ys)}))")
        if not self.strict:
            return t
        raise Refuse(f'{what}: a value of kind {k} where {want} is expected')

    # --------------------------------------------------------- expressions
    def expr(self, e, env, want=None):
        """(term, kind); `want` only disambiguates constants."""
        if isinstance(e, ast.Name):
            if e.id not in env:
                c = self.consts.get((self.fn.mod, e.id))
                if c is not None:
                    return self.expr(c, {}, want)
                raise Refuse(f'{self.fn.name}: unknown name {e.id}')
            k = env[e.id]
            if k in ERASED or k == 'hint':
                return None, k
            if k == 'valtext':
                return env['@alias:' + e.id], k
            return v(e.id), k
        if isinstance(e, ast.Constant):
            return self.const(e.value, want)
        if isinstance(e, ast.JoinedStr):
            return self.fstring(e, env)
        if isinstance(e, ast.Tuple) and not (
                isinstance(want, tuple) and want[0] == 'list'):
            ws = want[1:] if isinstance(want, tuple) and want[0] == 'tuple' \
                and len(want) == len(e.elts) + 1 else [None] * len(e.elts)
            parts = [self.expr(x, env, w) for x, w in zip(e.elts, ws)]
            return ('(' + ', '.join(p[0] for p in parts) + ')',
                    ('tuple',) + tuple(p[1] for p in parts))
        if isinstance(e, (ast.List, ast.Set, ast.Tuple)):
            we = want[1] if isinstance(want, tuple) and want[0] == 'list' \
                else None
            parts = [self.expr(x, env, we) for x in e.elts]
            k = None
            for p in parts:
                k = join(k, p[1])
            return ('[' + '; '.join(self.coerce(p[0], p[1], k)
                                    for p in parts) + ']', ('list', k))
        if isinstance(e, ast.BinOp):
            return self.binop(e, env)
        if isinstance(e, ast.UnaryOp) and isinstance(e.op, ast.Not):
            return f'(negb {self.truth(e.operand, env)})', 'bool'
        if isinstance(e, ast.BoolOp):
            op = ' && ' if isinstance(e.op, ast.And) else ' || '
            return ('(' + op.join(self.truth(x, env) for x in e.values)
                    + ')', 'bool')
        if isinstance(e, ast.Compare):
            return self.compare(e, env)
        if isinstance(e, ast.Attribute):
            return self.attribute(e, env)
        if isinstance(e, ast.Subscript):
            return self.subscript(e, env)
        if isinstance(e, ast.Call):
            return self.call(e, env)
        if isinstance(e, (ast.ListComp, ast.GeneratorExp)):
            return self.comprehension(e, env)
        if isinstance(e, ast.DictComp):
            return self.dictcomp(e, env)
        raise Refuse(f'{self.fn.name}: unsupported expression {_src(e)}')

    def const(self, c, want):
        if isinstance(c, bool):
            return ('true' if c else 'false'), 'bool'
        if c is None:
            return None, 'none'
        if isinstance(c, int):
            if c < 0 or c > 100:
                raise Refuse(f'integer literal {c}')
            if want == 'nat':
                return str(c), 'nat'
            return f'{c}%Z', 'Z'
        if isinstance(c, str):
            if want == 'opk':
                if c not in OPS:
                    raise Refuse(f'operator literal {c!r}')
                return OPS[c], 'opk'
            if want == 'ws' or (c.strip() == '' and want is None and c):
                if c.strip() != '':
                    raise Refuse(f'separator {c!r} is not white space')
                return None, 'ws'
            if c in CONST_STR:
                return CONST_STR[c]
            if c == '' and want in ('ostr', None):
                return 'None', 'ostr'
            raise Refuse(f'string literal {c!r} is in no template')
        raise Refuse(f'literal {c!r}')

    def fstring(self, e, env):
        lits, holes = [''], []
        for p in e.values:
            if isinstance(p, ast.Constant):
                lits[-1] += p.value
            else:
                if p.conversion != -1 or p.format_spec is not None:
                    raise Refuse('format specification in ' + _src(e))
                holes.append(p.value)
                lits.append('')
        for i, (tl, kinds, same, tree, res) in enumerate(TEMPLATES):
            if tuple(lits) != tl or len(holes) != len(kinds):
                continue
            if same and _src(holes[same[0]]) != _src(holes[same[1]]):
                continue
            terms = []
            ok = True
            for h, need in zip(holes, kinds):
                t, k = self.expr(h, env)
                if need == 'str' and k in STRS:
                    pass
                elif need == 'cstr' and k in ('cstr', 'tf'):
                    pass
                elif need == 'key' and k in ('key', 'var'):
                    t = self.coerce(t, k, 'key')
                elif need == k:
                    pass
                else:
                    ok = False
                    break
                terms.append(t)
            if not ok:
                continue
            if same:
                terms = [t for j, t in enumerate(terms) if j != same[1]]
            self.used_templates.add(i)
            return '(' + tree.format(*terms) + ')', res
        raise Refuse(f'{self.fn.name}: string template {_src(e)} is not in '
                     'the table of recognised templates (or a hole has the '
                     'wrong kind)')

    def binop(self, e, env):
        if isinstance(e.op, ast.Add):
            parts = []

            def flat(x):
                if isinstance(x, ast.BinOp) and isinstance(x.op, ast.Add):
                    flat(x.left)
                    flat(x.right)
                else:
                    parts.append(x)
            flat(e)
            vals = [(p.value, 'lit') if isinstance(p, ast.Constant)
                    and isinstance(p.value, str) else None if isinstance(
                        p, ast.Constant) else self.expr(p, env)
                    for p in parts]
            want = 'nat' if any(x is not None and x[1] == 'nat'
                                for x in vals) else None
            vals = [self.expr(p, env, want) if x is None else x
                    for p, x in zip(parts, vals)]
            ks = [k for _, k in vals]
            if all(isinstance(k, tuple) and k[0] == 'list' for k in ks):
                ek = None
                for k in ks:
                    ek = join(ek, k[1])
                return ('(' + ' ++ '.join(
                    self.coerce(t, k, ('list', ek)) for t, k in vals) + ')',
                    ('list', ek))
            if all(k == 'nat' for k in ks):
                return '(' + ' + '.join(t for t, _ in vals) + ')', 'nat'
            if ks == ['lit', 'ws', 'opk', 'lit'] and vals[0][0] == ') ' \
                    and vals[3][0] == ' (':
                return vals[2][0], 'glue'
            if len(ks) == 5 and ks[0] == ks[4] == 'lit' \
                    and vals[0][0] == '(' and vals[4][0] == ')' \
                    and ks[1] in STRS and ks[3] in STRS and ks[2] == 'glue':
                return (f'(gop_mk {vals[2][0]} {vals[1][0]} {vals[3][0]})',
                        'cstr')
            raise Refuse(f'{self.fn.name}: concatenation {_src(e)} is not '
                         'in the table of recognised templates')
        a, ka = self.expr(e.left, env, 'nat')
        b, kb = self.expr(e.right, env, 'nat')
        if ka == kb == 'nat':
            if isinstance(e.op, ast.Sub):
                self.note(f'{self.fn.name}: `{_src(e)}` is the truncated '
                          'subtraction of natural numbers (equal to '
                          "Python's when the result is not negative)")
                return f'({a} - {b})', 'nat'
            if isinstance(e.op, ast.Pow):
                return f'({a} ^ {b})', 'nat'
        raise Refuse(f'{self.fn.name}: unsupported arithmetic {_src(e)}')

    def truth(self, e, env):
        """Gallina bool for the truth value of a Python expression."""
        if isinstance(e, ast.UnaryOp) and isinstance(e.op, ast.Not):
            return f'(negb {self.truth(e.operand, env)})'
        t, k = self.expr(e, env)
        if k == 'bool':
            return t
        if k == 'nat':
            return f'(negb (Nat.eqb {t} 0))'
        if k == 'ostr':
            return f'(is_some {t})'
        if k in STRS:
            self.note(f'{self.fn.name}: `{_src(e)}` is a non-empty string '
                      '(every template and every atom is non-empty): its '
                      'truth value is True')
            return 'true'
        if k in ('kdict', 'kmap') or (isinstance(k, tuple) and k[0] in (
                'list', 'set', 'dict')):
            return f'(negb (is_nil {t}))'
        if k == 'adj':
            return t
        raise Refuse(f'{self.fn.name}: truth value of {_src(e)} ({k})')

    def is_opaque(self, e, env):
        """Condition on a type hint / on the text of a value."""
        names = [n.id for n in ast.walk(e) if isinstance(n, ast.Name)]
        if not any(env.get(n) in ('hint', 'valtext') for n in names):
            return False
        for n in ast.walk(e):
            if not isinstance(n, (ast.Compare, ast.BoolOp, ast.Call,
                                  ast.Name, ast.Constant, ast.Load, ast.And,
                                  ast.Or, ast.Eq, ast.NotEq, ast.UnaryOp,
                                  ast.Not)):
                raise Refuse(f'{self.fn.name}: condition {_src(e)}')
            if isinstance(n, ast.Call) and _dotted(n.func) not in (
                    'isinstance', 'len'):
                raise Refuse(f'{self.fn.name}: condition {_src(e)}')
        return True

    def compare(self, e, env):
        if len(e.ops) != 1:
            raise Refuse('chained comparison ' + _src(e))
        op, l, r = e.ops[0], e.left, e.comparators[0]
        neg = isinstance(op, (ast.NotEq, ast.NotIn))
        wrap = (lambda s: f'(negb {s})') if neg else (lambda s: s)
        if isinstance(op, (ast.Eq, ast.NotEq)):
            if _dotted(l) and _dotted(l).endswith('.owner') and \
                    env.get(_dotted(l)[:-6]) == 'graph' and \
                    isinstance(r, ast.Constant) and r.value in ('sys', 'env'):
                t = f'(ts_owner_sys {v(_dotted(l)[:-6])})'
                if r.value == 'env':
                    t = f'(negb {t})'
                return wrap(t), 'bool'
            a, ka = self.expr(l, env)
            b, kb = self.expr(r, env, ka)
            if ka in STRS and kb == 'tf':
                return wrap(f'(str_is {a} {b})'), 'bool'
            if ka == kb == 'nat':
                return wrap(f'(Nat.eqb {a} {b})'), 'bool'
            if ka == kb == 'Z':
                return wrap(f'(Z.eqb {a} {b})'), 'bool'
            raise Refuse(f'{self.fn.name}: comparison {_src(e)} '
                         f'({ka} with {kb})')
        if isinstance(op, (ast.In, ast.NotIn)):
            if isinstance(l, ast.Constant) and l.value == 'formula':
                b, kb = self.expr(r, env)
                if kb == 'label':
                    return wrap(f'(is_some (l_formula {b}))'), 'bool'
                if kb == 'kdict' or kb == ('list', 'var'):
                    self.note("'formula' is not a variable name")
                    return wrap('false'), 'bool'
            a, ka = self.expr(l, env)
            b, kb = self.expr(r, env, ('list', ka))
            if ka in ('key', 'var') and kb == 'kdict':
                return wrap(f'(key_mem {self.coerce(a, ka, "key")} {b})'), \
                    'bool'
            if ka == 'key' and kb == ('list', 'var'):
                return wrap(f'(key_in_vars {a} {b})'), 'bool'
            if ka == 'var' and kb == ('list', 'var'):
                return wrap(f'(mem {a} {b})'), 'bool'
            if ka == 'opk' and kb == ('list', 'opk'):
                return wrap(f'(gop_in {a} {b})'), 'bool'
            raise Refuse(f'{self.fn.name}: membership {_src(e)} '
                         f'({ka} in {kb})')
        if isinstance(op, ast.Gt):
            a, ka = self.expr(l, env)
            b, kb = self.expr(r, env, ka)
            if ka == kb == 'nat':
                return f'(Nat.ltb {b} {a})', 'bool'
        raise Refuse(f'{self.fn.name}: comparison {_src(e)}')

    def attribute(self, e, env):
        d = _dotted(e)
        if d and '.' in d:
            base, attr = d.split('.', 1)
            if env.get(base) == 'graph':
                if attr == 'vars':
                    return f'(ts_vars {v(base)})', ('list', 'var')
                if attr == 'env_vars':
                    return f'(ts_env_vars {v(base)})', ('list', 'var')
                if attr == 'initial_nodes':
                    self.note('g.initial_nodes (a set): the list ts_initial '
                              'of the record is any enumeration of it (the '
                              'theorems hold for every record)')
                    return f'(ts_initial {v(base)})', ('list', 'Z')
        raise Refuse(f'{self.fn.name}: attribute {_src(e)}')

    def subscript(self, e, env):
        if isinstance(e.slice, ast.Constant) and e.slice.value == 'formula' \
                and isinstance(e.value, ast.Name) \
                and env.get(e.value.id) == 'label':
            if '@formula:' + e.value.id not in env:
                raise Refuse(f"{self.fn.name}: {_src(e)} outside "
                             "`if 'formula' in ...`")
            return 'f_' + e.value.id, 'ostr'
        t, k = self.expr(e.value, env)
        if k == 'kdict':
            self.expr(e.slice, env)
            self.note(f'{self.fn.name}: `{_src(e)}` is a type hint (erased; '
                      'KeyError is not modelled)')
            return None, 'hint'
        if isinstance(k, tuple) and k[0] == 'list':
            i, ki = self.expr(e.slice, env, 'nat')
            if ki != 'nat':
                raise Refuse('index ' + _src(e))
            self.note(f'{self.fn.name}: `{_src(e)}`: IndexError is not '
                      'modelled (default value outside the list)')
            return f'(nth {i} {t} {default_of(k[1])})', k[1]
        raise Refuse(f'{self.fn.name}: subscript {_src(e)}')

    # --------------------------------------------------------------- calls
    def call(self, e, env):
        f = _dotted(e.func)
        fn = self.fn
        # functions of the two modules
        target = None
        if f in SIGS and SIGS[f][0] == fn.mod and f in self.fns:
            target = self.fns[f]
        elif f and f.startswith('stx.') and fn.mod == 'lz' \
                and f[4:] in SIGS and SIGS[f[4:]][0] == 'stx':
            target = self.fns[f[4:]]
        if target is not None:
            return self.call_fn(target, e, env)
        if f == 'stx.prime' and len(e.args) == 1 and not e.keywords:
            t, k = self.expr(e.args[0], env)
            if k not in ('key', 'var'):
                raise Refuse('stx.prime of ' + str(k))
            self.note('stx.prime(k): the key with the primed flag set '
                      '(names are abstract; its assertion `not isprimed(k)` '
                      'is not modelled; name-level priming is the subject '
                      'of C18)')
            return f'(key_prime {self.coerce(t, k, "key")})', 'key'
        if f in ('list', 'set', 'dict') and not e.args and not e.keywords:
            return '[]', ({'list': 'list', 'set': 'set', 'dict': 'dict'}[f],
                          None)
        if f == 'dict' and len(e.args) == 1 and not e.keywords:
            a = e.args[0]
            if isinstance(a, ast.GeneratorExp):
                return self.dict_of_pairs(a, env)
            t, k = self.expr(a, env)
            if k == ('list', 'var'):
                self.note('dict(g.vars): its keys (type hints erased)')
                return f'(vars_keys {t})', 'kdict'
            if k in ('label', 'kdict'):
                return t, k
            raise Refuse(f'dict({k})')
        if f == 'list' and len(e.args) == 1 and not e.keywords:
            t, k = self.expr(e.args[0], env)
            if isinstance(k, tuple) and k[0] == 'list':
                return t, k
            raise Refuse(f'list({k})')
        if f == 'len' and len(e.args) == 1:
            t, k = self.expr(e.args[0], env)
            if isinstance(k, tuple) and k[0] == 'list' or k == 'kdict':
                return f'(List.length {t})', 'nat'
            if k == 'graph':
                return f'(List.length (graph_nodes {t}))', 'nat'
            raise Refuse(f'len({k})')
        if f in ('min', 'max') and len(e.args) == 1 and not e.keywords:
            t, k = self.expr(e.args[0], env)
            if k == 'graph':
                self.note(f'{f}(g): of the list of nodes (ValueError on an '
                          'empty graph is not modelled: 0)')
                return f'(list_{f} (graph_nodes {t}))', 'Z'
            raise Refuse(f'{f}({k})')
        if f == 'aut.add_expr' and env.get('aut') == 'aut' \
                and len(e.args) == 1:
            t, k = self.expr(e.args[0], env)
            if k not in STRS:
                raise Refuse('aut.add_expr of ' + str(k))
            self.note('aut.add_expr(s): the formula s itself (string -> BDD '
                      'is the subject of C06; compared by the truth-table '
                      'correspondence of this check)')
            return t, 'str'
        # methods
        if isinstance(e.func, ast.Attribute):
            m = e.func.attr
            o = e.func.value
            if m == 'upper' and isinstance(o, ast.Call) and \
                    _dotted(o.func) == 'str' and len(o.args) == 1:
                t, k = self.expr(o.args[0], env)
                if k != 'Z':
                    raise Refuse('str(...).upper() of ' + str(k))
                return t, 'valtext'
            if m == 'bit_length' and not e.args:
                t, k = self.expr(o, env, 'nat')
                if k == 'nat':
                    return f'(bit_length {t})', 'nat'
            if m == 'get' and _dotted(o) and _dotted(o).endswith('.succ') \
                    and env.get(_dotted(o)[:-5]) == 'graph' \
                    and len(e.args) == 1:
                u, ku = self.expr(e.args[0], env)
                if ku != 'Z':
                    raise Refuse('g.succ.get of ' + str(ku))
                self.note('g.succ.get(u) is true iff some edge leaves u '
                          '(networkx adjacency)')
                return f'(graph_has_succ {v(_dotted(o)[:-5])} {u})', 'adj'
            ot, ok = (None, None)
            if isinstance(o, ast.Name) and o.id in env:
                ot, ok = self.expr(o, env)
            data = [k for k in e.keywords if k.arg == 'data'
                    and isinstance(k.value, ast.Constant)
                    and k.value.value is True]
            if ok == 'graph' and m == 'nodes' and not e.args and \
                    len(e.keywords) == 1 and data:
                return (f'(graph_nodes_data {ot})',
                        ('list', ('tuple', 'Z', 'label')))
            if ok == 'graph' and m in ('edges', 'out_edges') and \
                    len(e.args) == 1 and len(e.keywords) == 1 and data:
                u, ku = self.expr(e.args[0], env)
                if ku != 'Z':
                    raise Refuse('edges of ' + str(ku))
                self.note(f'g.{m}(u, data=True): the entries of '
                          'g.edges(data=True) that leave u, in that order '
                          '(networkx)')
                return (f'(graph_edges_from {ot} {u})',
                        ('list', ('tuple', 'Z', 'Z', 'label')))
            if m == 'items' and not e.args and not e.keywords:
                if ok == 'kdict':
                    return ot, ('items', 'kdict')
                if ok == 'label':
                    return ot, ('items', 'label')
            if m == 'values' and not e.args and not e.keywords and \
                    isinstance(ok, tuple) and ok[0] == 'dict':
                return f'(map snd {ot})', ('list', ok[1])
        raise Refuse(f'{fn.name}: unsupported call {_src(e)}')

    def call_fn(self, target, e, env):
        names = [p for p, _ in target.params]
        given = {}
        if len(e.args) > len(names):
            raise Refuse('too many arguments: ' + _src(e))
        for n, a in zip(names, e.args):
            given[n] = a
        for kw in e.keywords:
            if kw.arg is None or kw.arg not in names or kw.arg in given:
                raise Refuse('keyword argument in ' + _src(e))
            given[kw.arg] = kw.value
        args = []
        for n, k in target.params:
            if n in given:
                t, ka = self.expr(given[n], env, k)
            elif n in target.defaults:
                t, ka = self.expr(target.defaults[n], {}, k)
            else:
                raise Refuse(f'missing argument {n} in ' + _src(e))
            if k in ERASED:
                if k == 'ws' and ka != 'ws':
                    raise Refuse(f'separator argument of {_src(e)} is not a '
                                 'white-space constant')
                continue
            if isinstance(ka, tuple) and ka[0] in ('items',):
                raise Refuse('items() passed to a function')
            args.append(self.coerce(t, ka, k, f'argument {n} of {_src(e)}'))
        if target.recursive:
            if self.fn is target:
                args.insert(0, 'fuel')
            else:
                args.insert(0, FUEL[target.name](args))
        if any(k == 'ws' for _, k in target.params):
            self.note(f'{target.name}: the separator `sep` (white space '
                      'between the operands) is erased')
        return '(' + ' '.join([target.coq] + args) + ')', target.ret

    # ------------------------------------------------------ comprehensions
    def bind_target(self, tgt, k, env):
        """(Gallina pattern, env extended) for a loop target of kind k."""
        env = dict(env)
        if isinstance(tgt, ast.Name):
            env[tgt.id] = k
            return v(tgt.id), env
        if isinstance(tgt, ast.Tuple) and isinstance(k, tuple) and \
                k[0] == 'tuple' and len(k) == len(tgt.elts) + 1 and \
                all(isinstance(x, ast.Name) for x in tgt.elts):
            for x, kk in zip(tgt.elts, k[1:]):
                env[x.id] = kk
            return "'(" + ', '.join(
                '_' if kk in ('hint',) else v(x.id)
                for x, kk in zip(tgt.elts, k[1:])) + ')', env
        raise Refuse(f'{self.fn.name}: loop target {_src(tgt)} over {k}')

    def iterable(self, e, env):
        """(term, element kind) of something iterated over."""
        t, k = self.expr(e, env)
        if k == 'graph':
            return f'(graph_nodes {t})', 'Z'
        if k == 'kdict':
            return t, 'key'
        if isinstance(k, tuple) and k[0] == 'set':
            t = self.coerce(t, k, ('list', k[1]))
            return t, k[1]
        if isinstance(k, tuple) and k[0] == 'list':
            return t, k[1]
        raise Refuse(f'{self.fn.name}: iteration over {_src(e)} ({k})')

    def comprehension(self, e, env):
        if len(e.generators) != 1 or e.generators[0].is_async:
            raise Refuse('comprehension ' + _src(e))
        g = e.generators[0]
        it, ek = self.iterable(g.iter, env)
        pat, env2 = self.bind_target(g.target, ek, env)
        # [x for x in L if x] over possibly empty strings: the non-empty ones
        if ek == 'ostr' and len(g.ifs) == 1 and isinstance(
                g.target, ast.Name) and isinstance(g.ifs[0], ast.Name) \
                and g.ifs[0].id == g.target.id:
            env2[g.target.id] = 'str'
            elt, k = self.expr(e.elt, env2)
            x = v(g.target.id)
            return (f'(flat_map (fun {x} => match {x} with Some {x} => '
                    f'[{elt}] | None => [] end) {it})', ('list', k))
        elt, k = self.expr(e.elt, env2)
        if g.ifs:
            c = ' && '.join(self.truth(x, env2) for x in g.ifs)
            it = f'(filter (fun {pat} => {c}) {it})'
        if isinstance(e.elt, ast.Name) and isinstance(g.target, ast.Name) \
                and e.elt.id == g.target.id:
            return it, ('list', k)
        return f'(map (fun {pat} => {elt}) {it})', ('list', k)

    def dict_of_pairs(self, e, env):
        """dict((KEY, d[k]) for k in d): the keys."""
        if len(e.generators) != 1 or e.generators[0].ifs or not isinstance(
                e.elt, ast.Tuple) or len(e.elt.elts) != 2:
            raise Refuse('dict of ' + _src(e))
        g = e.generators[0]
        it, ek = self.iterable(g.iter, env)
        if ek != 'key':
            raise Refuse('dict of ' + _src(e))
        pat, env2 = self.bind_target(g.target, ek, env)
        kt, kk = self.expr(e.elt.elts[0], env2)
        _, vk = self.expr(e.elt.elts[1], env2)
        if kk != 'key' or vk != 'hint':
            raise Refuse('dict of ' + _src(e))
        return f'(map (fun {pat} => {kt}) {it})', 'kdict'

    def dictcomp(self, e, env):
        if len(e.generators) != 1:
            raise Refuse('comprehension ' + _src(e))
        g = e.generators[0]
        t, k = self.expr(g.iter, env)
        if k == 'kdict' and isinstance(g.target, ast.Name) and not g.ifs:
            # {k: E for k in d}
            pat, env2 = self.bind_target(g.target, 'key', env)
            kt, kk = self.expr(e.key, env2)
            vt, vk = self.expr(e.value, env2)
            if kk == vk == 'key':
                return f'(map (fun {pat} => ({kt}, {vt})) {t})', 'kmap'
            raise Refuse('comprehension ' + _src(e))
        if not (isinstance(g.target, ast.Tuple) and len(g.target.elts) == 2
                and all(isinstance(x, ast.Name) for x in g.target.elts)
                and isinstance(e.key, ast.Name)
                and isinstance(e.value, ast.Name)
                and e.key.id == g.target.elts[0].id
                and e.value.id == g.target.elts[1].id
                and len(g.ifs) == 1):
            raise Refuse('comprehension ' + _src(e))
        kn = g.target.elts[0].id
        if k == ('items', 'kdict'):
            env2 = dict(env)
            env2[kn] = 'key'
            env2[g.target.elts[1].id] = 'hint'
            c = self.truth(g.ifs[0], env2)
            return f'(filter (fun {v(kn)} => {c}) {t})', 'kdict'
        if k == ('items', 'label'):
            # the condition must be `k [not] in <variables>`; at the key
            # 'formula' (no variable) it is False / True
            c0 = g.ifs[0]
            if not (isinstance(c0, ast.Compare) and len(c0.ops) == 1
                    and isinstance(c0.ops[0], (ast.In, ast.NotIn))
                    and isinstance(c0.left, ast.Name) and c0.left.id == kn):
                raise Refuse('comprehension ' + _src(e))
            env2 = dict(env)
            env2[kn] = 'key'
            env2[g.target.elts[1].id] = 'Z'
            c = self.truth(c0, env2)
            keepf = 'true' if isinstance(c0.ops[0], ast.NotIn) else 'false'
            self.note(f"{self.fn.name}: `{_src(e)}`: the entry 'formula' "
                      "is no variable name, so the condition is "
                      f"{keepf} for it")
            return (f'(label_filter {keepf} (fun {v(kn)} => {c}) {t})',
                    'label')
        raise Refuse('comprehension ' + _src(e))

    # ---------------------------------------------------------- statements
    @staticmethod
    def reads(stmts):
        out = set()
        for s in stmts:
            for n in ast.walk(s):
                if isinstance(n, ast.Name) and isinstance(n.ctx, ast.Load):
                    out.add(n.id)
        return out

    @staticmethod
    def writes(stmts):
        out = set()

        def tgt(t):
            if isinstance(t, ast.Name):
                out.add(t.id)
            elif isinstance(t, (ast.Tuple, ast.List)):
                for x in t.elts:
                    tgt(x)
            elif isinstance(t, ast.Subscript):
                b = t.value
                while isinstance(b, (ast.Subscript, ast.Attribute)):
                    b = b.value
                if isinstance(b, ast.Name):
                    out.add(b.id)
        for s in stmts:
            for n in ast.walk(s):
                if isinstance(n, ast.Assign):
                    for t in n.targets:
                        tgt(t)
                elif isinstance(n, ast.AugAssign):
                    tgt(n.target)
                elif isinstance(n, ast.For):
                    tgt(n.target)
                elif isinstance(n, ast.Expr) and isinstance(
                        n.value, ast.Call) and isinstance(
                        n.value.func, ast.Attribute) and n.value.func.attr \
                        in ('append', 'extend', 'add', 'update'):
                    b = n.value.func.value
                    while isinstance(b, (ast.Subscript, ast.Attribute)):
                        b = b.value
                    if isinstance(b, ast.Name):
                        out.add(b.id)
        return out

    @staticmethod
    def by_position(names, stmts):
        """Names in the order of their first occurrence in the source (so
        that renaming a local does not permute a tuple of carried values)."""
        pos = {}
        for s in stmts:
            for n in ast.walk(s):
                if isinstance(n, ast.Name) and n.id in names:
                    p = (n.lineno, n.col_offset)
                    if n.id not in pos or p < pos[n.id]:
                        pos[n.id] = p
        return sorted(names, key=lambda n: pos.get(n, (10 ** 9, 0)))

    @classmethod
    def escapes(cls, stmts):
        for s in stmts:
            if isinstance(s, (ast.Return, ast.Continue, ast.Raise,
                              ast.Break)):
                return True
            if isinstance(s, ast.If) and (cls.escapes(s.body)
                                          or cls.escapes(s.orelse)):
                return True
        return False

    def fill(self, name, k):
        """Element kind of a fresh empty container from the inference."""
        if isinstance(k, tuple) and k[0] in ('list', 'set', 'dict') \
                and k[1] is None:
            return (k[0], self.elem.get((self.fn.name, name)))
        return k

    def learn(self, name, k):
        key = (self.fn.name, name)
        new = join(self.elem.get(key), k)
        if new != self.elem.get(key):
            self.elem[key] = new
            self.changed = True
        return new

    def let(self, name, term, k, env):
        env = dict(env)
        env[name] = k
        if term is None or k in ERASED or k == 'hint':
            return '', env
        if k == 'valtext':
            env['@alias:' + name] = term
            return '', env
        return f'let {v(name)} := {term} in\n', env

    def block(self, stmts, env, tail, live):
        if not stmts:
            return tail(env)
        s, rest = stmts[0], stmts[1:]
        fn = self.fn

        def go(env2):
            return self.block(rest, env2, tail, live)
        if isinstance(s, ast.Expr) and isinstance(s.value, ast.Constant):
            return go(env)
        if isinstance(s, ast.Pass):
            return go(env)
        if isinstance(s, ast.Return):
            if self.cont:
                raise Refuse(f'{fn.name}: return inside a loop')
            if s.value is None:
                raise Refuse(f'{fn.name}: return without a value')
            if fn.ret == 'aut':
                return self.build_aut(s.value, env)
            if isinstance(s.value, ast.Tuple) and isinstance(
                    fn.ret, tuple) and fn.ret[0] == 'tuple' \
                    and len(fn.ret) == len(s.value.elts) + 1:
                parts = []
                for x, kw in zip(s.value.elts, fn.ret[1:]):
                    t, k = self.expr(x, env, kw)
                    parts.append(self.coerce(t, k, kw, f'{fn.name}: return'))
                return '(' + ', '.join(parts) + ')'
            t, k = self.expr(s.value, env, fn.ret)
            return self.coerce(t, k, fn.ret, f'{fn.name}: return')
        if isinstance(s, ast.Continue):
            if not self.cont:
                raise Refuse('continue outside a loop')
            return self.cont[-1](env)
        if isinstance(s, ast.Raise):
            if self.cont:
                raise Refuse(f'{fn.name}: raise inside a loop')
            self.note(f'{fn.name}: `{_src(s)}` -> raise_ (the bridge '
                      'theorems assume the code does not raise)')
            return f'raise_ {default_of(fn.ret)}'
        if isinstance(s, ast.Assert):
            src = _src(s.test)
            if src in DROPPED_ASSERTS:
                self.note(f'{fn.name}: `assert {src}` not translated: '
                          + DROPPED_ASSERTS[src])
                return go(env)
            if self.cont:
                raise Refuse(f'{fn.name}: assert inside a loop')
            c = self.truth(s.test, env)
            return (f'if {c} then\n{go(env)}\n'
                    f'else raise_ {default_of(fn.ret)}')
        if isinstance(s, ast.Expr) and isinstance(s.value, ast.Call):
            return self.call_stmt(s.value, env, go)
        if isinstance(s, ast.Assign):
            return self.assign(s, env, go)
        if isinstance(s, ast.If):
            return self.if_stmt(s, rest, env, tail, live)
        if isinstance(s, ast.For):
            return self.for_stmt(s, rest, env, tail, live)
        raise Refuse(f'{fn.name}: unsupported statement {_src(s)[:60]}')

    def call_stmt(self, c, env, go):
        fn = self.fn
        f = _dotted(c.func)
        if f in SKIP_CALLS:
            self.note(f'{fn.name}: {f}(...) skipped (logging)')
            return go(env)
        if fn.ret == 'aut':
            r = self.aut_stmt(c, env, go)
            if r is not None:
                return r
        if isinstance(c.func, ast.Attribute) and isinstance(
                c.func.value, ast.Name) and len(c.args) == 1 \
                and not c.keywords and c.func.value.id in env:
            x, m = c.func.value.id, c.func.attr
            k = env[x]
            if m in ('append', 'add') and isinstance(k, tuple) and k[0] == (
                    'list' if m == 'append' else 'set'):
                t, ke = self.expr(c.args[0], env)
                if ke not in STRS + ('ostr', 'Z', 'var', 'key'):
                    raise Refuse(f'{fn.name}: {_src(c)}: element {ke}')
                ek = self.learn(x, join(k[1], ke))
                head, env2 = self.let(
                    x, f'{v(x)} ++ [{self.coerce(t, ke, ek)}]',
                    (k[0], ek), env)
                return head + go(env2)
            if m == 'extend' and isinstance(k, tuple) and k[0] == 'list':
                t, ke = self.expr(c.args[0], env)
                if not (isinstance(ke, tuple) and ke[0] == 'list'):
                    raise Refuse(f'{fn.name}: {_src(c)}')
                ek = self.learn(x, join(k[1], ke[1]))
                head, env2 = self.let(
                    x, f'{v(x)} ++ {self.coerce(t, ke, ("list", ek))}',
                    ('list', ek), env)
                return head + go(env2)
            if m == 'update' and k == 'kdict':
                t, ke = self.expr(c.args[0], env)
                if ke != 'kdict':
                    raise Refuse(f'{fn.name}: {_src(c)}')
                head, env2 = self.let(x, f'kdict_update {v(x)} {t}', k, env)
                return head + go(env2)
        raise Refuse(f'{fn.name}: unsupported statement {_src(c)}')

    def assign(self, s, env, go):
        fn = self.fn
        if len(s.targets) != 1:
            raise Refuse(f'{fn.name}: chained assignment')
        tg = s.targets[0]
        if isinstance(tg, ast.Name):
            t, k = self.expr(s.value, env)
            k = self.fill(tg.id, k)
            if isinstance(k, tuple) and k[0] == 'items':
                raise Refuse(f'{fn.name}: {_src(s)}')
            head, env2 = self.let(tg.id, t, k, env)
            return head + go(env2)
        if isinstance(tg, ast.Tuple):
            names = []
            for x in tg.elts:
                if not isinstance(x, ast.Name):
                    raise Refuse(f'{fn.name}: {_src(s)}')
                names.append(x.id)
            if isinstance(s.value, ast.Tuple) and \
                    len(s.value.elts) == len(names):
                parts = [self.expr(x, env) for x in s.value.elts]
                kinds = [self.fill(n, k) for n, (_, k) in zip(names, parts)]
                t = '(' + ', '.join(p[0] for p in parts) + ')'
            else:
                t, k = self.expr(s.value, env)
                if not (isinstance(k, tuple) and k[0] == 'tuple'
                        and len(k) == len(names) + 1):
                    raise Refuse(f'{fn.name}: {_src(s)}: not a tuple of '
                                 f'{len(names)}')
                kinds = list(k[1:])
            env2 = dict(env)
            pats = []
            for n, k in zip(names, kinds):
                if n == '_':
                    pats.append('_')
                else:
                    env2[n] = k
                    pats.append(v(n))
            return f"let '({', '.join(pats)}) := {t} in\n" + go(env2)
        if isinstance(tg, ast.Subscript) and isinstance(tg.value, ast.Name) \
                and tg.value.id in env:
            x = tg.value.id
            k = env[x]
            if k == 'kdict':
                kt, kk = self.expr(tg.slice, env)
                if kk not in ('key', 'var'):
                    raise Refuse(f'{fn.name}: {_src(s)}')
                vt, vk = self.expr(s.value, env)
                head, env2 = self.let(
                    x, f'kdict_set {v(x)} {self.coerce(kt, kk, "key")}', k,
                    env)
                if vk == ('tuple', 'Z', 'Z'):
                    h2, env2 = self.let(x + '__dom', vt, vk, env2)
                    head += h2
                    self.note(f'{fn.name}: `{_src(s)}`: the key is added; '
                              f'the range is kept as {v(x)}__dom')
                else:
                    self.note(f'{fn.name}: `{_src(s)}`: the key is added '
                              '(type hints are erased)')
                return head + go(env2)
            if k == 'label':
                kt, kk = self.expr(tg.slice, env)
                vt, vk = self.expr(s.value, env)
                if kk not in ('key', 'var') or vk != 'Z':
                    raise Refuse(f'{fn.name}: {_src(s)}')
                head, env2 = self.let(
                    x, f'label_set {v(x)} {self.coerce(kt, kk, "key")} {vt}',
                    k, env)
                return head + go(env2)
            if isinstance(k, tuple) and k[0] == 'dict':
                kt, kk = self.expr(tg.slice, env)
                vt, vk = self.expr(s.value, env)
                if kk != 'Z' or vk not in STRS:
                    raise Refuse(f'{fn.name}: {_src(s)}')
                ek = self.learn(x, join(k[1], vk))
                head, env2 = self.let(
                    x, f'zdict_set {v(x)} {kt} {self.coerce(vt, vk, ek)}',
                    ('dict', ek), env)
                return head + go(env2)
        if fn.ret == 'aut':
            r = self.aut_assign(s, env, go)
            if r is not None:
                return r
        raise Refuse(f'{fn.name}: unsupported assignment {_src(s)}')

    # ------------------------------------------------------------------ if
    def if_stmt(self, s, rest, env, tail, live):
        fn = self.fn
        # `if aut is None: aut = trl.Automaton()`
        if _src(s.test) == 'aut is None' and not s.orelse and \
                len(s.body) == 1 and _src(s.body[0]) == \
                'aut = trl.Automaton()' and fn.ret == 'aut':
            self.note(f'{fn.name}: a fresh Automaton when aut is None '
                      '(the record of the fields written below)')
            env2 = dict(env)
            env2['aut'] = 'aut'
            return self.block(rest, env2, tail, live)
        if self.is_opaque(s.test, env):
            return self.opaque_if(s, rest, env, tail, live)
        # if 'formula' in d: ... d['formula'] ...
        t = s.test
        if isinstance(t, ast.Compare) and len(t.ops) == 1 and isinstance(
                t.ops[0], ast.In) and isinstance(t.left, ast.Constant) \
                and t.left.value == 'formula' and isinstance(
                t.comparators[0], ast.Name) and env.get(
                t.comparators[0].id) == 'label' and not s.orelse \
                and not self.escapes(s.body):
            d = t.comparators[0].id
            env2 = dict(env)
            env2['@formula:' + d] = 'ostr'
            cond = f'MATCH:{d}'
        else:
            cond = self.truth(s.test, env)
            env2 = env
        if self.escapes(s.body) or self.escapes(s.orelse):
            if cond.startswith('MATCH:'):
                raise Refuse(f'{fn.name}: {_src(s.test)}')
            a = self.block(s.body + rest, env, tail, live)
            b = self.block(s.orelse + rest, env, tail, live)
            return f'if {cond} then\n{a}\nelse\n{b}'
        after = self.reads(rest) | live
        w = self.by_position(
            [n for n in self.writes(s.body) | self.writes(s.orelse)
             if n in after], [s])
        wb, wo = self.writes(s.body), self.writes(s.orelse)
        keep = [n for n in w if n in env or (n in wb and n in wo)]
        lost = [n for n in w if n not in keep]
        kinds = {}
        self.probe += 1
        try:
            for body in (s.body, s.orelse):
                def rec(e2):
                    for n in keep:
                        kinds[n] = join(kinds.get(n), e2[n])
                    return ''
                self.block(body, env2, rec, after)
        finally:
            self.probe -= 1

        def out(e2):
            return '(' + ', '.join(
                self.coerce(v(n), e2[n], kinds[n]) for n in keep) + ')'
        env3 = dict(env)
        for n in lost:
            env3.pop(n, None)
        if not keep:
            self.block(s.body, env2, lambda e2: '', after)
            self.block(s.orelse, env, lambda e2: '', after)
            self.note(f'{fn.name}: `if {_src(s.test)}` changes nothing '
                      'that is used later: skipped')
            return self.block(rest, env3, tail, live)
        a = self.block(s.body, env2, out, after)
        b = self.block(s.orelse, env, out, after)
        for n in keep:
            env3[n] = kinds[n]
        pat = v(keep[0]) if len(keep) == 1 else \
            "'(" + ', '.join(v(n) for n in keep) + ')'
        if cond.startswith('MATCH:'):
            d = cond[6:]
            head = (f'let {pat} :=\n  match l_formula {v(d)} with\n'
                    f'  | Some f_{d} =>\n{a}\n  | None =>\n{b}\n  end in\n')
        else:
            head = f'let {pat} :=\n  if {cond} then\n{a}\n  else\n{b} in\n'
        return head + self.block(rest, env3, tail, live)

    def opaque_if(self, s, rest, env, tail, live):
        fn = self.fn
        branches = []
        node = s
        while True:
            if not self.is_opaque(node.test, env):
                raise Refuse(f'{fn.name}: condition {_src(node.test)} mixed '
                             'with conditions on type hints')
            branches.append(node.body)
            if len(node.orelse) == 1 and isinstance(node.orelse[0], ast.If):
                node = node.orelse[0]
                continue
            branches.append(node.orelse)
            break
        terms = []
        for b in branches:
            if any(isinstance(x, ast.Raise) for x in b):
                self.note(f'{fn.name}: `{_src(b[-1])}` under a condition on '
                          'a type hint / on the text of a value: not '
                          'modelled (ill-typed input)')
                continue
            terms.append(self.block(b + rest, env, tail, live))
        if not terms or any(t != terms[0] for t in terms):
            raise Refuse(f'{fn.name}: the branches on `{_src(s.test)}` '
                         '(type hint) are not read as the same tree')
        self.note(f'{fn.name}: the branches on the type hint '
                  f'(`{_src(s.test)}` ...) are read as the same tree')
        return terms[0]

    # ----------------------------------------------------------------- for
    def for_stmt(self, s, rest, env, tail, live):
        fn = self.fn
        if s.orelse:
            raise Refuse(f'{fn.name}: for/else')
        label_items = False
        t0, k0 = self.expr(s.iter, env)
        if k0 == ('items', 'label'):
            # the entry 'formula' must be skipped by the body's first
            # statement `if k not in <dict of variables>: continue`
            b0 = s.body[0] if s.body else None
            ok = (isinstance(s.target, ast.Tuple) and len(s.target.elts) == 2
                  and isinstance(b0, ast.If) and not b0.orelse
                  and len(b0.body) == 1
                  and isinstance(b0.body[0], ast.Continue)
                  and isinstance(b0.test, ast.Compare)
                  and len(b0.test.ops) == 1
                  and isinstance(b0.test.ops[0], ast.NotIn)
                  and isinstance(b0.test.left, ast.Name)
                  and b0.test.left.id == s.target.elts[0].id
                  and isinstance(b0.test.comparators[0], ast.Name)
                  and env.get(b0.test.comparators[0].id) == 'kdict')
            if not ok:
                raise Refuse(f'{fn.name}: loop over d.items() of a label '
                             'must start with `if k not in <dict of '
                             'variables>: continue`')
            self.note(f"{fn.name}: `for ... in {_src(s.iter)}`: the entry "
                      "'formula' is skipped by the first statement of the "
                      "body ('formula' is no variable name): the loop runs "
                      'over the other entries')
            it, ek = f'(l_items {t0})', ('tuple', 'key', 'Z')
            label_items = True
        else:
            it, ek = self.iterable(s.iter, env)
        pat, envb = self.bind_target(s.target, ek, env)
        wr = self.writes([s])
        tnames = self.writes([ast.Assign(targets=[s.target],
                                         value=ast.Constant(0))])
        # read after the loop, or by a later iteration (the targets are
        # bound afresh by each iteration)
        after = self.reads(rest) | live | (self.reads(s.body) - tnames)
        state = self.by_position(
            [n for n in wr if n in env and n in after
             and env[n] not in ERASED], [s])
        if not state:
            raise Refuse(f'{fn.name}: loop `for {_src(s.target)} in '
                         f'{_src(s.iter)}` has no effect')
        entry = {n: self.fill(n, env[n]) for n in state}

        def out(e2):
            return '(' + ', '.join(
                self.coerce(v(n), e2[n], entry[n], f'{fn.name}: loop state')
                for n in state) + ')'
        self.cont.append(out)
        try:
            for n in state:
                if n not in tnames:
                    envb[n] = entry[n]
            body = self.block(s.body, envb, out, after | set(state))
        finally:
            self.cont.pop()
        spat = v(state[0]) if len(state) == 1 else \
            "'(" + ', '.join(v(n) for n in state) + ')'
        init = '(' + ', '.join(v(n) for n in state) + ')'
        env2 = dict(env)
        for n in state:
            env2[n] = entry[n]
        for n in wr:
            if n not in state and n not in env:
                env2.pop(n, None)
        return (f'let {spat} :=\n  fold_left (fun {spat} {pat} =>\n{body})\n'
                f'    {it} {init} in\n' + self.block(rest, env2, tail, live))

    # ------------------------------------------- the automaton being filled
    AUT_SLOTS = ('varlist.env', 'varlist.sys', 'init.env', 'init.sys',
                 'action.env', 'action.sys', 'nd_dom')

    def aut_set(self, slot, term, kind, env, go):
        head, env2 = self.let('aut__' + slot.replace('.', '_'), term, kind,
                              env)
        return head + go(env2)

    def aut_assign(self, s, env, go):
        """aut.varlist['env'|'sys'] = E"""
        tg = s.targets[0]
        if isinstance(tg, ast.Subscript) and _dotted(tg.value) == \
                'aut.varlist' and env.get('aut') == 'aut' and isinstance(
                tg.slice, ast.Constant) and tg.slice.value in ('env', 'sys'):
            t, k = self.expr(s.value, env)
            if k != ('list', 'var'):
                raise Refuse(f'{self.fn.name}: {_src(s)}')
            return self.aut_set('varlist.' + tg.slice.value, t, k, env, go)
        return None

    def aut_stmt(self, c, env, go):
        f = _dotted(c.func)
        fn = self.fn
        if env.get('aut') != 'aut':
            return None
        if f == 'aut.declare_variables':
            if c.args or len(c.keywords) != 1 or c.keywords[0].arg is not \
                    None or not isinstance(c.keywords[0].value, ast.Name):
                raise Refuse(f'{fn.name}: {_src(c)}')
            d = c.keywords[0].value.id
            if env.get(d) != 'kdict' or env.get(d + '__dom') != \
                    ('tuple', 'Z', 'Z'):
                raise Refuse(f'{fn.name}: {_src(c)}: the dictionary does '
                             'not give the range of the node variable')
            self.note(f'{fn.name}: `{_src(c)}`: the range declared for the '
                      'node variable is recorded (a_nd_dom); the other '
                      'declarations repeat g.vars')
            return self.aut_set('nd_dom', v(d + '__dom'), ('tuple', 'Z', 'Z'),
                                env, go)
        if f in ('aut.init.update', 'aut.action.update'):
            which = f.split('.')[1]
            kws = {k.arg: k.value for k in c.keywords}
            if c.args or sorted(kws) != ['env', 'sys']:
                raise Refuse(f'{fn.name}: {_src(c)}')
            te, ke = self.expr(kws['env'], env)
            ts, ks = self.expr(kws['sys'], env)
            if ke not in STRS or ks not in STRS:
                raise Refuse(f'{fn.name}: {_src(c)}')
            return self.aut_set(
                which + '.env', te, 'str', env,
                lambda e2: self.aut_set(which + '.sys', ts, 'str', e2, go))
        # aut.varlist[g.owner].append(nodevar)
        if isinstance(c.func, ast.Attribute) and c.func.attr == 'append' \
                and isinstance(c.func.value, ast.Subscript) and _dotted(
                c.func.value.value) == 'aut.varlist' and len(c.args) == 1:
            sl = c.func.value.slice
            d = _dotted(sl)
            if not (d and d.endswith('.owner') and env.get(d[:-6]) ==
                    'graph'):
                raise Refuse(f'{fn.name}: {_src(c)}')
            t, k = self.expr(c.args[0], env)
            if k != 'var' or env.get('aut__varlist_env') != ('list', 'var') \
                    or env.get('aut__varlist_sys') != ('list', 'var'):
                raise Refuse(f'{fn.name}: {_src(c)}')
            e_, s_ = v('aut__varlist_env'), v('aut__varlist_sys')
            return (f"let '({e_}, {s_}) :=\n"
                    f'  if ts_owner_sys {v(d[:-6])} then ({e_}, {s_} ++ [{t}])'
                    f'\n  else ({e_} ++ [{t}], {s_}) in\n' + go(env))
        return None

    def build_aut(self, value, env):
        if not (isinstance(value, ast.Name) and value.id == 'aut'
                and env.get('aut') == 'aut'):
            raise Refuse(f'{self.fn.name}: return {_src(value)}')
        names = []
        for s in ('nd_dom', 'varlist.env', 'varlist.sys', 'init.env',
                  'init.sys', 'action.env', 'action.sys'):
            n = 'aut__' + s.replace('.', '_')
            if n not in env:
                raise Refuse(f'{self.fn.name}: aut.{s} is never written')
            names.append(v(n))
        return 'Build_gaut ' + ' '.join(names)

    # ------------------------------------------------------------ functions
    def emit(self, fn):
        self.fn = fn
        self.cont = []
        env = {}
        binders = []
        for p, k in fn.params:
            env[p] = k
            if k not in ERASED:
                binders.append(f'({v(p)} : {coq_type(k)})')

        def end(e2):
            raise Refuse(f'{fn.name}: may end without a return value')
        body = self.block(list(fn.node.body), env, end, set())
        ret = coq_type(fn.ret)
        if fn.recursive:
            return (f'Fixpoint {fn.coq} (fuel : nat) {" ".join(binders)} '
                    f'{{struct fuel}}\n    : {ret} :=\n'
                    f'match fuel with\n| O => out_of_fuel '
                    f'{default_of(fn.ret)}\n| S fuel =>\n{body}\nend.')
        return (f'Definition {fn.coq} {" ".join(binders)}\n    : {ret} :=\n'
                f'{body}.')

    def run(self):
        self.strict = False
        for _ in range(5):
            self.changed = False
            self.probe += 1
            try:
                for name in ORDER:
                    self.emit(self.fns[name])
            finally:
                self.probe -= 1
            if not self.changed:
                break
        else:
            raise Refuse('kinds of list elements do not stabilise')
        self.strict = True
        self.notes = []
        self.used_templates = set()
        out = []
        for name in ORDER:
            fn = self.fns[name]
            text = self.emit(fn)
            doc = f'(* {fn.mod == "lz" and LZ_SRC or STX_SRC} : {name}, '\
                  f'line {fn.node.lineno} *)'
            out.append(doc + '\n' + text)
        return '\n\n'.join(out) + '\n'


def translate(lz_path, stx_path):
    """(Gallina text of the translated functions, notes)."""
    t = Translator(lz_path, stx_path)
    text = t.run()
    return text, t.notes


def generate(repo):
    """Full text of coq/gen/LogicizerGen.v and the notes."""
    text, notes = translate(os.path.join(repo, LZ_SRC),
                            os.path.join(repo, STX_SRC))
    lz = ', '.join(n for n in ORDER if SIGS[n][0] == 'lz')
    stx = ', '.join(n for n in ORDER if SIGS[n][0] == 'stx')
    body = HEADER % dict(lz=lz, stx=stx) + template_table_comment() + '\n' \
        + text + FOOTER
    body += ''.join(f'(* note: {comment(n)} *)\n' for n in notes)
    return body, notes


if __name__ == '__main__':
    print(generate(sys.argv[1] if len(sys.argv) > 1 else '/repo')[0])
