(* L5Cover / FloorLitProofs: the quantified formulas of cover._floor denote
   exactly the joins (floors) and meets (ceilings) that the executable model
   computes, for all well-formed sets of lattice elements. *)
From Coq Require Import List ZArith Bool Lia Arith.
Import ListNotations.
From Omega Require Import L5Cover.Boxes L5Cover.BoxesProofs L5Cover.MinCover
  L5Cover.MinCoverProofs L5Cover.FloorLit.
Open Scope Z_scope.

(* a parameter assignment within the bit-field ranges (possibly improper) *)
Definition pwf1 (r i : ival) : Prop :=
  fst r <= fst i <= snd r /\ fst r <= snd i <= snd r.
Definition pwf (rs : ranges) (b : box) : Prop := Forall2 pwf1 rs b.
Definition ranges_ok (rs : ranges) : Prop := Forall (fun r => fst r <= snd r) rs.

Lemma pairs_In r i : In i (pairs r) <-> pwf1 r i.
Proof.
  unfold pairs, pwf1. rewrite in_flat_map. split.
  - intros [a [Ha Hi]]. apply in_map_iff in Hi. destruct Hi as [b [<- Hb]].
    apply zrange_In in Ha. apply zrange_In in Hb. cbn. lia.
  - intros H. exists (fst i). split; [apply zrange_In; lia|].
    destruct i as [a b]. cbn in *. apply in_map, zrange_In. lia.
Qed.

Lemma params_In rs b : In b (params rs) <-> pwf rs b.
Proof.
  unfold pwf. revert b. induction rs as [|r rs IH]; intros b; cbn [params].
  - split.
    + intros [<-|[]]. constructor.
    + intros H. inversion H. left. reflexivity.
  - rewrite in_flat_map. split.
    + intros [i [Hi Hb]]. apply in_map_iff in Hb. destruct Hb as [c [<- Hc]].
      constructor; [apply pairs_In, Hi | apply IH, Hc].
    + intros H. inversion H as [|r' i rs' c Hi Hc]; subst.
      exists i. split; [apply pairs_In, Hi | apply in_map, IH, Hc].
Qed.

(* ------------------------------------------------------------ joins *)
Lemma box_join_ub_l b c : length b = length c -> box_le b (box_join b c).
Proof.
  unfold box_le. revert c. induction b as [|i b IH]; intros [|j c] H; try discriminate;
    cbn [box_join]; constructor.
  - unfold ival_le, ival_join. cbn. lia.
  - apply IH. cbn in H. lia.
Qed.
Lemma box_join_ub_r b c : length b = length c -> box_le c (box_join b c).
Proof.
  unfold box_le. revert c. induction b as [|i b IH]; intros [|j c] H; try discriminate;
    cbn [box_join]; constructor.
  - unfold ival_le, ival_join. cbn. lia.
  - apply IH. cbn in H. lia.
Qed.
Lemma box_join_lub b c u : box_le b u -> box_le c u -> box_le (box_join b c) u.
Proof.
  unfold box_le. intros H. revert c. induction H as [|i k b u Hik Hbu IH]; intros c Hc;
    inversion Hc; subst; cbn [box_join]; constructor.
  - unfold ival_le, ival_join in *. cbn. lia.
  - apply IH. assumption.
Qed.
Lemma box_join_pwf rs b c : pwf rs b -> pwf rs c -> pwf rs (box_join b c).
Proof.
  unfold pwf. intros H. revert c. induction H as [|r i rs b Hi Hb IH]; intros c Hc;
    inversion Hc; subst; cbn [box_join]; constructor.
  - unfold pwf1, ival_join in *. cbn. lia.
  - apply IH. assumption.
Qed.
Lemma box_meet_pwf rs b c : pwf rs b -> pwf rs c -> pwf rs (box_meet b c).
Proof.
  unfold pwf. intros H. revert c. induction H as [|r i rs b Hi Hb IH]; intros c Hc;
    inversion Hc; subst; cbn [box_meet]; constructor.
  - unfold pwf1, ival_meet in *. cbn. lia.
  - apply IH. assumption.
Qed.
Lemma box_meet_lb_l b c : length b = length c -> box_le (box_meet b c) b.
Proof.
  unfold box_le. revert c. induction b as [|i b IH]; intros [|j c] H; try discriminate;
    cbn [box_meet]; constructor.
  - unfold ival_le, ival_meet. cbn. lia.
  - apply IH. cbn in H. lia.
Qed.

Lemma pwf_length rs b : pwf rs b -> length b = length rs.
Proof. unfold pwf. intros H. induction H; cbn; congruence. Qed.

Lemma bot_pwf rs : ranges_ok rs -> pwf rs (bot rs).
Proof.
  unfold ranges_ok, pwf, bot. intros H. induction H as [|r rs Hr H IH]; cbn; constructor.
  - unfold pwf1. cbn. lia.
  - exact IH.
Qed.
Lemma top_pwf rs : ranges_ok rs -> pwf rs (top rs).
Proof.
  unfold ranges_ok, pwf, top. intros H. induction H as [|r rs Hr H IH]; cbn; constructor.
  - unfold pwf1. lia.
  - exact IH.
Qed.
Lemma bot_le rs u : pwf rs u -> box_le (bot rs) u.
Proof.
  unfold pwf, box_le, bot. intros H. induction H as [|r i rs u Hi Hu IH]; cbn; constructor.
  - unfold pwf1, ival_le in *. cbn. lia.
  - exact IH.
Qed.
Lemma le_top rs u : pwf rs u -> box_le u (top rs).
Proof.
  unfold pwf, box_le, top. intros H. induction H as [|r i rs u Hi Hu IH]; cbn; constructor.
  - unfold pwf1, ival_le in *. lia.
  - exact IH.
Qed.

Section Lattice.
Variable rs : ranges.
Hypothesis Hrs : ranges_ok rs.

Lemma join_all_pwf l : (forall x, In x l -> pwf rs x) -> pwf rs (join_all rs l).
Proof.
  induction l as [|x l IH]; intros H; cbn [join_all fold_right]; [apply bot_pwf, Hrs|].
  apply box_join_pwf; [apply H; left; reflexivity|].
  apply IH. intros y Hy. apply H. right. exact Hy.
Qed.
Lemma join_all_ub l x :
  (forall x, In x l -> pwf rs x) -> In x l -> box_le x (join_all rs l).
Proof.
  induction l as [|y l IH]; intros H Hx; [destruct Hx|].
  cbn [join_all fold_right].
  assert (Hj : pwf rs (join_all rs l)).
  { apply join_all_pwf. intros z Hz. apply H. right. exact Hz. }
  assert (Hl : length y = length (join_all rs l)).
  { rewrite (pwf_length rs y), (pwf_length rs _ Hj); [reflexivity|].
    apply H. left. reflexivity. }
  destruct Hx as [->|Hx].
  - apply box_join_ub_l, Hl.
  - apply box_le_trans with (join_all rs l).
    + apply IH; [|exact Hx]. intros z Hz. apply H. right. exact Hz.
    + apply box_join_ub_r, Hl.
Qed.
Lemma join_all_lub l u :
  pwf rs u -> (forall x, In x l -> box_le x u) -> box_le (join_all rs l) u.
Proof.
  intros Hu. induction l as [|y l IH]; intros H; cbn [join_all fold_right]; [apply bot_le, Hu|].
  apply box_join_lub; [apply H; left; reflexivity|].
  apply IH. intros z Hz. apply H. right. exact Hz.
Qed.

Lemma meet_all_pwf l : (forall x, In x l -> pwf rs x) -> pwf rs (meet_all rs l).
Proof.
  induction l as [|x l IH]; intros H; cbn [meet_all fold_right]; [apply top_pwf, Hrs|].
  apply box_meet_pwf; [apply H; left; reflexivity|].
  apply IH. intros y Hy. apply H. right. exact Hy.
Qed.
Lemma meet_all_lb l x :
  (forall x, In x l -> pwf rs x) -> In x l -> box_le (meet_all rs l) x.
Proof.
  induction l as [|y l IH]; intros H Hx; [destruct Hx|].
  cbn [meet_all fold_right].
  assert (Hj : pwf rs (meet_all rs l)).
  { apply meet_all_pwf. intros z Hz. apply H. right. exact Hz. }
  assert (Hl : length y = length (meet_all rs l)).
  { rewrite (pwf_length rs y), (pwf_length rs _ Hj); [reflexivity|].
    apply H. left. reflexivity. }
  destruct Hx as [->|Hx].
  - apply box_meet_lb_l, Hl.
  - apply box_le_trans with (meet_all rs l).
    + apply box_meet_le_r, Hl.
    + apply IH; [|exact Hx]. intros z Hz. apply H. right. exact Hz.
Qed.

(* ------------------------------------------------------------ the formulas *)
Variables X Y : list box.
Hypothesis HX : forall x, In x X -> pwf rs x.
Hypothesis HY : forall y, In y Y -> pwf rs y.

(* _contains_covered (signatures=False): p is above every x below q *)
Lemma like_floor p q :
  contains_covered rs box_leb (mem_box X) p q = true <->
  forall x, In x (those_under X q) -> box_le x p.
Proof.
  unfold contains_covered. rewrite allb_forallb, forallb_forall. split.
  - intros H x Hx. unfold those_under in Hx. apply filter_In in Hx. destruct Hx as [Hx Hle].
    specialize (H x (proj2 (params_In rs x) (HX x Hx))).
    rewrite (proj2 (mem_box_true X x) Hx), Hle in H. apply box_leb_true, H.
  - intros H u Hu. destruct (mem_box X u) eqn:Em; [|reflexivity].
    destruct (box_leb u q) eqn:El; [|reflexivity].
    apply box_leb_true, H. unfold those_under. apply filter_In.
    split; [apply mem_box_true, Em | exact El].
Qed.

Lemma those_under_pwf q x : In x (those_under X q) -> pwf rs x.
Proof. unfold those_under. intros H. apply filter_In in H. apply HX, H. Qed.

(* the formula of _floor (signatures=False) holds, among the parameter
   assignments, exactly of the joins Floor(y) = Join(ThoseUnder(X, y)), y in Y *)
Theorem floors_lit_correct p :
  pwf rs p ->
  (floors_lit rs X Y p = true <-> In p (map (floor rs X) Y)).
Proof.
  intros Hp. unfold floors_lit, floor_formula. rewrite anyb_existsb, existsb_exists. split.
  - intros [q [Hq H]].
    destruct (mem_box Y q) eqn:Ey; [|discriminate]. apply mem_box_true in Ey.
    destruct (contains_covered rs box_leb (mem_box X) p q) eqn:El; [|discriminate].
    rewrite allb_forallb, forallb_forall in H.
    apply in_map_iff. exists q. split; [|exact Ey].
    assert (Hj : pwf rs (floor rs X q)) by (apply join_all_pwf, those_under_pwf).
    apply box_le_antisym.
    + apply join_all_lub; [exact Hp|]. apply like_floor, El.
    + specialize (H (floor rs X q) (proj2 (params_In rs _) Hj)).
      assert (L : contains_covered rs box_leb (mem_box X) (floor rs X q) q = true).
      { apply like_floor. intros x Hx. apply join_all_ub; [apply those_under_pwf | exact Hx]. }
      rewrite L in H. apply box_leb_true, H.
  - intros Hin. apply in_map_iff in Hin. destruct Hin as [q [<- Hq]].
    exists q. split; [apply params_In, HY, Hq|].
    rewrite (proj2 (mem_box_true Y q) Hq).
    assert (L : contains_covered rs box_leb (mem_box X) (floor rs X q) q = true).
    { apply like_floor. intros x Hx. apply join_all_ub; [apply those_under_pwf | exact Hx]. }
    rewrite L. rewrite allb_forallb, forallb_forall. intros u Hu.
    destruct (contains_covered rs box_leb (mem_box X) u q) eqn:Eu; [|reflexivity].
    apply box_leb_true. apply join_all_lub; [apply params_In, Hu | apply like_floor, Eu].
Qed.

(* _contains_covered with the swapped order (signatures=True): p is below
   every y above q *)
Lemma like_ceil p q :
  contains_covered rs (fun u p => box_leb p u) (mem_box Y) p q = true <->
  forall y, In y (those_over Y q) -> box_le p y.
Proof.
  unfold contains_covered. rewrite allb_forallb, forallb_forall. split.
  - intros H y Hy. unfold those_over in Hy. apply filter_In in Hy. destruct Hy as [Hy Hle].
    specialize (H y (proj2 (params_In rs y) (HY y Hy))).
    rewrite (proj2 (mem_box_true Y y) Hy), Hle in H. apply box_leb_true, H.
  - intros H u Hu. destruct (mem_box Y u) eqn:Em; [|reflexivity].
    destruct (box_leb q u) eqn:El; [|reflexivity].
    apply box_leb_true, H. unfold those_over. apply filter_In.
    split; [apply mem_box_true, Em | exact El].
Qed.

Lemma those_over_pwf q y : In y (those_over Y q) -> pwf rs y.
Proof. unfold those_over. intros H. apply filter_In in H. apply HY, H. Qed.

(* the formula of _floor with signatures=True holds, among the parameter
   assignments, exactly of the meets Ceil(x) = Meet(ThoseOver(Y, x)), x in X *)
Theorem ceilings_lit_correct p :
  pwf rs p ->
  (ceilings_lit rs X Y p = true <-> In p (map (ceil rs Y) X)).
Proof.
  intros Hp. unfold ceilings_lit, floor_formula. rewrite anyb_existsb, existsb_exists. split.
  - intros [q [Hq H]].
    destruct (mem_box X q) eqn:Ex; [|discriminate]. apply mem_box_true in Ex.
    destruct (contains_covered rs (fun u p0 => box_leb p0 u) (mem_box Y) p q) eqn:El;
      [|discriminate].
    rewrite allb_forallb, forallb_forall in H.
    apply in_map_iff. exists q. split; [|exact Ex].
    assert (Hj : pwf rs (ceil rs Y q)) by (apply meet_all_pwf, those_over_pwf).
    apply box_le_antisym.
    + specialize (H (ceil rs Y q) (proj2 (params_In rs _) Hj)).
      assert (L : contains_covered rs (fun u p0 => box_leb p0 u) (mem_box Y) (ceil rs Y q) q = true).
      { apply like_ceil. intros y Hy. apply meet_all_lb; [apply those_over_pwf | exact Hy]. }
      rewrite L in H. apply box_leb_true, H.
    + apply meet_all_glb; [apply le_top, Hp|]. apply like_ceil, El.
  - intros Hin. apply in_map_iff in Hin. destruct Hin as [q [<- Hq]].
    exists q. split; [apply params_In, HX, Hq|].
    rewrite (proj2 (mem_box_true X q) Hq).
    assert (L : contains_covered rs (fun u p0 => box_leb p0 u) (mem_box Y) (ceil rs Y q) q = true).
    { apply like_ceil. intros y Hy. apply meet_all_lb; [apply those_over_pwf | exact Hy]. }
    rewrite L. rewrite allb_forallb, forallb_forall. intros u Hu.
    destruct (contains_covered rs (fun u0 p0 => box_leb p0 u0) (mem_box Y) u q) eqn:Eu;
      [|reflexivity].
    apply box_leb_true. apply meet_all_glb; [apply le_top, params_In, Hu | apply like_ceil, Eu].
Qed.
End Lattice.
