(* Moore independence of the synthesized actions, over the SOLVER's output.
   StreettTProofs.streett_action_moore_indep / RabinTProofs2.rabin_action_moore_indep
   assume that the iterates, goals and persistence predicates handed to the
   construction do not depend on the next environment values ([indep]).
   Here these hypotheses are discharged for what the constructions are really
   applied to: the lists the GENERATED solve_streett_game / solve_rabin_game
   return for state predicates ([spred]) holds / goals, lifted to the arena
   with the memory.  Everything the solvers record is a state predicate
   (invariants of the translated loops: StreettIter1/2, RabinIter1), and a
   lifted state predicate is independent of the next environment values. *)
From Coq Require Import List Bool Arith Lia.
Import ListNotations.
From Omega Require Import L4.Arena L4.ArenaFacts L4.Kleene L4.GameSpec.
From OmegaGen Require Import FixpointGen Gr1Gen.
From OmegaGP Require Import FixpointProofs TransducerModel StreettTProofs RabinTProofs2
  StreettNB2 StreettIter1 StreettIter2 RabinIter1 RabinClosure2.

Lemma indep_lift nc nx ny M (u : bdd) : spred u -> indep (lift nc nx ny M u).
Proof.
  intros Su v x'. unfold lift, setg. cbn [vc vx vy vxp vyp].
  rewrite (Su (mkV (vc v) (vx v) (vy v / M) x' (vyp v / M))),
          (Su (mkV (vc v) (vx v) (vy v / M) (vxp v) (vyp v / M))). reflexivity.
Qed.

Lemma Forall_indep_lift nc nx ny M l :
  Forall spred l -> Forall indep (map (lift nc nx ny M) l).
Proof.
  intros Hl. induction Hl as [|u l Hu _ IH]; cbn [map]; constructor; [|exact IH].
  apply indep_lift, Hu.
Qed.

Lemma Forall2_indep_lift nc nx ny M l :
  Forall (Forall spred) l -> Forall (Forall indep) (map (map (lift nc nx ny M)) l).
Proof.
  intros Hl. induction Hl as [|u l Hu _ IH]; cbn [map]; constructor; [|exact IH].
  apply Forall_indep_lift, Hu.
Qed.

Lemma Forall3_indep_lift nc nx ny M l :
  Forall (Forall (Forall spred)) l ->
  Forall (Forall (Forall indep)) (map (map (map (lift nc nx ny M))) l).
Proof.
  intros Hl. induction Hl as [|u l Hu _ IH]; cbn [map]; constructor; [|exact IH].
  apply Forall2_indep_lift, Hu.
Qed.

Lemma Forall4_indep_lift nc nx ny M l :
  Forall (Forall (Forall (Forall spred))) l ->
  Forall (Forall (Forall (Forall indep))) (map (map (map (map (lift nc nx ny M)))) l).
Proof.
  intros Hl. induction Hl as [|u l Hu _ IH]; cbn [map]; constructor; [|exact IH].
  apply Forall3_indep_lift, Hu.
Qed.

Section Solver.
Variables nc nx ny : nat.
Variables E S : bdd.
Variables holds goals : list bdd.
Variables moore plus_one : bool.
Variable fuel : nat.
Hypothesis Hfuel : NV nc nx ny <= fuel.
Hypothesis Sh : Forall spred holds.
Hypothesis Sg : Forall spred goals.

(* ---- Streett: everything solve_streett_game returns is a state predicate ---- *)
Local Notation ssol := (Gr1Gen.solve_streett_game nc nx ny E S holds goals moore plus_one fuel).

Theorem solve_streett_outputs_spred :
  spred (fst (fst ssol)) /\ Forall (Forall spred) (snd (fst ssol)) /\
  Forall (Forall (Forall spred)) (snd ssol).
Proof.
  destruct (solve_is_zbody nc nx ny E S holds goals moore plus_one fuel Hfuel Sh Sg)
    as [q [Sq [Hs _]]].
  rewrite Hs. cbn [fst snd].
  assert (Hall : forall R, In R goals ->
            Forall spred (snd (fst (Gr1Gen.attractor_under_assumptions nc nx ny E S holds moore
                                      plus_one fuel (band nc nx ny R (step nc nx ny moore plus_one fuel E S q))))) /\
            Forall (Forall spred) (snd (Gr1Gen.attractor_under_assumptions nc nx ny E S holds moore
                                      plus_one fuel (band nc nx ny R (step nc nx ny moore plus_one fuel E S q))))).
  { intros R HR.
    pose proof (aua_onion nc nx ny E S holds moore plus_one fuel Hfuel Sh
                  (band nc nx ny R (step nc nx ny moore plus_one fuel E S q))
                  (goal_spred nc nx ny E S goals moore plus_one fuel Sg R q HR)) as Hinv.
    destruct (Gr1Gen.attractor_under_assumptions nc nx ny E S holds moore plus_one fuel _)
      as [[y yj] xjk].
    cbn [aua_inv fst snd] in *. destruct Hinv as [_ [_ [Syj [Sxjk _]]]]. auto. }
  split; [apply (zbody_spred nc nx ny E S holds goals moore plus_one fuel Hfuel Sh Sg q Sq)|].
  unfold zbody. cbn [fst snd]. split.
  - apply Forall_forall. intros yj Hin. apply in_map_iff in Hin.
    destruct Hin as [R [<- HR]]. apply (Hall R HR).
  - apply Forall_forall. intros xjk Hin. apply in_map_iff in Hin.
    destruct Hin as [R [<- HR]]. apply (Hall R HR).
Qed.

(* ---- Rabin: everything solve_rabin_game returns is a state predicate -------- *)
Local Notation rsol := (Gr1Gen.solve_rabin_game nc nx ny E S holds goals moore plus_one fuel).
Local Notation rounds_ok := (rounds_ok nc nx ny E S holds goals moore plus_one).

Lemma rounds_outputs_spred zp zk yki xkijr :
  rounds_ok zp zk yki xkijr ->
  Forall spred zk /\ Forall (Forall spred) yki /\
  Forall (Forall (Forall (Forall spred))) xkijr.
Proof.
  intros Ho. induction Ho as [zp|zp z zs yi yis xijr xs Hr Ho IH].
  - repeat split; constructor.
  - destruct IH as [Hz [Hy Hx]]. split; [|split]; constructor; try assumption.
    + apply Hr.
    + apply Forall_forall. intros y Hin.
      destruct (round_y nc nx ny E S holds goals moore plus_one _ _ _ _ y Hr Hin)
        as [i [xjr [P [_ [_ [_ Hok]]]]]]. apply Hok.
    + apply Forall_forall. intros xjr Hin.
      destruct (round_x nc nx ny E S holds goals moore plus_one _ _ _ _ xjr Hr Hin)
        as [i [y [P [_ [_ [_ Hok]]]]]].
      destruct Hok as [_ [_ [_ [_ Hxs]]]].
      apply Forall_forall. intros xr Hxr. apply Forall_forall. intros x Hx0.
      destruct (Hxs xr Hxr) as [_ Hall]. apply (Hall x Hx0).
Qed.

Theorem solve_rabin_outputs_spred :
  Forall spred (fst (fst rsol)) /\ Forall (Forall spred) (snd (fst rsol)) /\
  Forall (Forall (Forall (Forall spred))) (snd rsol).
Proof.
  apply (rounds_outputs_spred bfalse).
  apply (solve_rounds_ok nc nx ny E S holds goals moore plus_one fuel Hfuel Sh Sg).
Qed.

End Solver.

(* ---- the synthesized Moore actions ---------------------------------------- *)
Section MooreActions.
Variables nc nx ny : nat.
Variables E S : bdd.
Variables holds goals : list bdd.
Variable plus_one : bool.
Variable fuel : nat.
Hypothesis Hfuel : NV nc nx ny <= fuel.
Hypothesis Sh : Forall spred holds.
Hypothesis Sg : Forall spred goals.

Theorem streett_impl_moore_indep G :
  let sol := Gr1Gen.solve_streett_game nc nx ny E S holds goals true plus_one fuel in
  let L := lift nc nx ny G in
  indep (streett_action nc nx ny G (L E) (L S) (map L holds) (map L goals) true plus_one
           (L (fst (fst sol))) (map (map L) (snd (fst sol))) (map (map (map L)) (snd sol))).
Proof.
  intros sol L.
  destruct (solve_streett_outputs_spred nc nx ny E S holds goals true plus_one fuel Hfuel Sh Sg)
    as [Hz [Hy Hx]].
  apply (streett_action_moore_indep nc nx ny G (L E) (L S) (map L holds) (map L goals)).
  - apply indep_lift, Hz.
  - apply Forall2_indep_lift, Hy.
  - apply Forall3_indep_lift, Hx.
  - apply Forall_indep_lift, Sg.
  - apply Forall_indep_lift, Sh.
Qed.

Theorem rabin_impl_moore_indep H G :
  let sol := Gr1Gen.solve_rabin_game nc nx ny E S holds goals true plus_one fuel in
  let L := lift nc nx ny (H * G) in
  indep (rabin_action nc nx ny H G (L E) (L S) (map L holds) (map L goals) true plus_one
           (map L (fst (fst sol))) (map (map L) (snd (fst sol)))
           (map (map (map (map L))) (snd sol))).
Proof.
  intros sol L.
  destruct (solve_rabin_outputs_spred nc nx ny E S holds goals true plus_one fuel Hfuel Sh Sg)
    as [Hz [Hy Hx]].
  apply (rabin_action_moore_indep nc nx ny H G (L E) (L S) (map L holds) (map L goals)).
  - apply Forall_indep_lift, Hz.
  - apply Forall2_indep_lift, Hy.
  - apply Forall4_indep_lift, Hx.
  - apply Forall_indep_lift, Sg.
  - apply Forall_indep_lift, Sh.
Qed.

End MooreActions.
