"""C07 — Context operations on BDDs equal operations on sets of assignments."""
import itertools
import json
import random

from vlib import core, bits_ctx as bc, coqlit as cl, enum_gen
from vlib.core import Broken, Mismatch, Failing

ID = 'C07'
LEVEL = 'proof'
THEORIES = ['theories/L0Bits/BitsFacts.vo', 'theories/L3Context/CtxFacts.vo',
            'theories/L3Context/NamingFacts.vo']

HEADER = '''From Coq Require Import ZArith List Bool String.
Import ListNotations.
From Omega Require Import L0Bits.Bits L3Context.Ctx L3Context.Prime L3Context.Naming.
Open Scope string_scope.
Open Scope Z_scope.
'''

# evaluation of the TRANSLATED enumeration code (gen/EnumGen.v): compared with
# the real results EXACTLY (same list, same order, same order of keys).  The
# table/entry encoding is the one of GenProofs/EnumBridge.v (repeated here so
# that these cases do not depend on the bridge being provable).
HEADER_GEN = HEADER + '''From OmegaGen Require EnumGen.
Definition g_bool_bit (x : string) : bit := (x, 0%nat).
Definition g_entry_of (x : ident) (d : vdecl) : EnumGen.entry bit :=
  match d with
  | DBool => EnumGen.mkEntry "bool" [] false (0, 0) 0
  | DInt h => EnumGen.mkEntry "int" (bitnames x (DInt h)) (h_signed h) (h_dom h)
                (h_width h)
  end.
Definition g_table_of (t : tbl) : list (string * EnumGen.entry bit) :=
  map (fun xd => (fst xd, g_entry_of (fst xd) (snd xd))) t.
Definition kv_eqb (a b : ident * val) : bool :=
  String.eqb (fst a) (fst b) && val_eqb (snd a) (snd b).
Definition exact_eqb : list fasgn -> list fasgn -> bool :=
  list_eqb (list_eqb kv_eqb).
Definition obit_eqb : option bool -> option bool -> bool := opt_eqb Bool.eqb.
'''
GEN_FUEL = 40

APPLY_OPS = {
    'OpNot': ['not', '~', '!'],
    'OpOr': ['or', r'\/', '|', '||'],
    'OpAnd': ['and', '/\\', '&', '&&'],
    'OpXor': ['xor', '#', '^'],
    'OpImplies': ['=>', '->', 'implies'],
    'OpEquiv': ['<=>', '<->', 'equiv'],
    'OpDiff': ['diff', '-'],
    'OpIte': ['ite'],
}


def prove(ctx):
    with ctx.coq_lock():
        # tie T: regenerate gen/EnumGen.v from the current enumeration.py /
        # bitvector.py, then re-prove GenProofs/EnumBridge.v (generated code =
        # model) and the statements built on it
        notes = enum_gen.ensure_enum(ctx)
        ctx.checker_cmds.append(
            'PYTHONPATH=tools python3 tools/vlib/enum_gen.py > '
            'coq/gen/EnumGen.v (translator tools/py2coq_enum.py)')
        ctx.prove_with_deps('Properties/C07.v')
    ctx.extra['translation'] = dict(
        sources=enum_gen.SOURCES, functions=enum_gen.FUNCTIONS,
        generated='coq/gen/EnumGen.v', bridge='coq/GenProofs/EnumBridge.v',
        notes=notes)
    ctx.trusted.append(
        'translator tie T: tools/py2coq_enum.py (enumeration._enumerate_int, '
        '_take_product_iter, _bitfields_to_int_iter, bitvector._append_sign_bit '
        '-> Gallina: generators = the list of yielded values in order, any '
        'exception = None, recursion = Fixpoint on fuel with the results proved '
        'for every sufficient fuel, dicts = insertion-ordered association '
        'lists, table entries = records, bit values True/\'1\'/1 identified, '
        'bit names abstract; fails closed; everything skipped is a note in '
        'coq/gen/EnumGen.v and in the evidence); the translated functions are '
        'also EVALUATED in Coq on every run and compared with the real results '
        'exactly, order included')
    ctx.trusted.append(
        'dd.pick_iter enters the model as the list of cubes it returned; its '
        'contract (pairwise disjoint partial bit assignments over declared '
        'bits, each total over the care bits, union = models) is a Section '
        'hypothesis of the theorems, discharged by a concrete instance, and '
        'is evaluated in Coq on the cubes of every generated case on both '
        'back ends (cube_contract_b)')
    ctx.trusted.append(
        'L3 model identifies a bit with (variable, index); this is faithful '
        'when the printing of bits as dd variable names (modelled in '
        'L3Context/Naming.v, compared with the real names on every generated '
        'context) is injective: C07_naming_injective; injectivity is what '
        'the guard of fixes/F15.patch maintains and is re-checked on every '
        'generated context and by the deterministic collision probe')


# ------------------------------------------------------------------ instances
def random_decl(rng, max_bits):
    while True:
        nv = rng.choice([2, 2, 3, 3, 4])
        names = ['a', 'b', 'c', 'd'][:nv]
        if rng.random() < 0.4:           # same-kind pairs allow renaming
            k = rng.choice(bc.KINDS)
            kinds = [k if rng.random() < 0.7 else rng.choice(bc.KINDS)
                     for _ in names]
        else:
            kinds = [rng.choice(bc.KINDS) for _ in names]
        if sum(bc.kind_width(k) for k in kinds) <= max_bits:
            return list(zip(names, kinds))


def call(f, *a, **kw):
    try:
        return ('ok', f(*a, **kw))
    except Exception as e:  # noqa
        return ('err', type(e).__name__)


class Inst:
    def __init__(self, decl, backend):
        self.decl, self.backend = decl, backend
        self.ctx = bc.make_context(decl, backend)
        self.names = [n for n, _ in decl]
        self.pairs = bc.bit_pairs(self.ctx)
        self.bitnames = [b for b, _ in self.pairs]
        self.name2pair = dict(self.pairs)
        self.n = len(self.pairs)
        self.preds = {}
        self.ops = []

    def bdd(self, tree):
        return bc.bdd_of_tree(tree, self.ctx.bdd, self.bitnames)

    def tree(self, u):
        return bc.tt_tree(u, self.ctx.bdd, self.bitnames)

    def case(self, o=None):
        c = dict(decl=self.decl, backend=self.backend, preds=self.preds)
        if o is not None:
            c['op'] = o
        return c


def var_bit_indices(inst, names):
    return [i for i, (_, (v, _)) in enumerate(inst.pairs) if v in names]


def make_preds(rng, inst):
    preds = {}
    for key in ('u', 'v', 'w'):
        dens = rng.choice([0.2, 0.5, 0.8])
        sub = [v for v in inst.names if rng.random() < 0.75] or inst.names[:1]
        for _ in range(8):
            t = bc.random_tree(rng, inst.n, dens, var_bit_indices(inst, set(sub)))
            if not isinstance(t, bool):
                break
        preds[key] = t
    # a parsed formula (may constrain values outside the hints as well)
    ints = [n for n, k in inst.decl if k != 'bool']
    bools = [n for n, k in inst.decl if k == 'bool']
    if ints:
        x = rng.choice(ints)
        y = rng.choice(ints)
        c = rng.randint(-4, 6)
        f = rng.choice([f'{x} <= {c}', f'{x} = {y}', f'{x} + {y} >= {c}',
                        f'({x} # {c}) /\\ ({y} < {x} + 2)'])
        if bools and rng.random() < 0.5:
            f = f'({f}) \\/ {bools[0]}'
        r = call(inst.ctx.add_expr, f)
        if r[0] == 'ok':
            preds['f'] = inst.tree(r[1])
    preds['T'] = True
    return preds


def all_subsets(xs):
    return [list(c) for k in range(len(xs) + 1)
            for c in itertools.combinations(xs, k)]


def pick_subsets(xs, rng, limit):
    s = all_subsets(xs)
    if len(s) <= limit:
        return s
    return [s[0], s[-1]] + rng.sample(s[1:-1], limit - 2)


def rand_value(rng, d, outside=False):
    if d['type'] == 'bool':
        return rng.random() < 0.5
    lo, hi = bc.limits(d)
    if outside:
        return rng.choice([lo - 1, hi + 1, lo - rng.randint(2, 9),
                           hi + rng.randint(2, 9)])
    return rng.randint(lo, hi)


def run_ops(rng, inst, thorough):
    import omega.symbolic.fol as _fol
    import omega.symbolic.enumeration as enum
    import omega.logic.bitvector as bv
    ctx = inst.ctx
    names = inst.names
    ops = []
    lim = 16 if thorough else 6

    def rec(op, pred, args, res, extra=None):
        kind, val = res
        if kind != 'ok':
            val = ('err', val)
        elif isinstance(val, bool):
            val = ('bool', val)
        elif isinstance(val, int):
            val = ('int', val)
        elif isinstance(val, (set, frozenset)):
            val = ('set', sorted(val))
        elif isinstance(val, list):
            val = ('list', val)
        elif val is None:
            val = ('none', None)
        elif isinstance(val, dict):
            val = ('dict', val)
        else:
            val = ('tree', inst.tree(val))
        o = dict(op=op, pred=pred, args=args, res=val)
        if extra:
            o.update(extra)
        ops.append(o)
    keys = [k for k in inst.preds if k != 'T']
    main = keys[:2] + (['f'] if 'f' in inst.preds else [])
    for name in dict.fromkeys(main + ['T']):
        u = inst.bdd(inst.preds[name])
        rec('support', name, None, call(ctx.support, u))
        for S in pick_subsets(names, rng, lim):
            # cost of evaluating the model: 2^(bits + quantified bits)
            k = sum(len(bc.var_bitnames(x, ctx.vars[x])) for x in S)
            if inst.n + k <= 15:
                rec('exist', name, S, call(ctx.exist, set(S), u))
                rec('forall', name, S, call(ctx.forall, set(S), u))
            # substitution of (representable) values
            d = {x: rand_value(rng, ctx.vars[x]) for x in S}
            rec('let_vals', name, d, call(ctx.let, dict(d), u))
            # care sets
            care_bits = call(lambda: (bv.bit_table(S, ctx.vars) if S else set()))
            rec('count', name, S, call(ctx.count, u, care_vars=S))
            if care_bits[0] == 'ok':
                cubes = [dict(c) for c in ctx.bdd.pick_iter(
                    u, care_vars=care_bits[1])]
                rec('pick_iter', name, S,
                    call(lambda: list(ctx.pick_iter(u, care_vars=S))),
                    dict(cubes=cubes))
                rec('pick', name, S, call(ctx.pick, u, care_vars=S),
                    dict(cubes=cubes))
        rec('count', name, None, call(ctx.count, u))
        cubes = [dict(c) for c in ctx.bdd.pick_iter(u)]
        rec('pick_iter', name, None, call(lambda: list(ctx.pick_iter(u))),
            dict(cubes=cubes))
        rec('pick', name, None, call(ctx.pick, u), dict(cubes=cubes))
        # renamings: same-typed pairs, swap, chain, self, differently typed
        rens = []
        for a in names:
            for b in names:
                if a != b and (inst.ctx.vars[a].get('dom') ==
                               inst.ctx.vars[b].get('dom')
                               and inst.ctx.vars[a]['type'] ==
                               inst.ctx.vars[b]['type']):
                    rens.append({a: b})
        same = [r for r in rens]
        if same:
            a, b = list(same[0].items())[0]
            rens.append({a: b, b: a})
        rens.append({names[0]: names[0]})
        rens.append({names[0]: names[-1]})
        if len(names) >= 3:
            rens.append({names[0]: names[1], names[1]: names[2]})
        # simultaneous renamings (a key that is also a value: swaps, chains,
        # cycles) first, so that they survive the truncation below
        rens.sort(key=lambda r: 0 if set(r) & set(r.values()) and len(r) > 1
                  else 1)
        if len(names) >= 3:
            tri = [n for n in names
                   if inst.ctx.vars[n].get('dom') == inst.ctx.vars[names[0]].get('dom')
                   and inst.ctx.vars[n]['type'] == inst.ctx.vars[names[0]]['type']]
            if len(tri) >= 3:
                rens.insert(0, {tri[0]: tri[1], tri[1]: tri[2], tri[2]: tri[0]})
        seen = []
        for ren in rens:
            if ren not in seen:
                seen.append(ren)
        for ren in seen[:max(lim, 3)]:
            rec('let_vars', name, [[k, v] for k, v in ren.items()],
                call(ctx.let, dict(ren), u))
    # assign_from
    for S in pick_subsets(names, rng, lim):
        d = {x: rand_value(rng, ctx.vars[x]) for x in S}
        rec('assign_from', None, d, call(ctx.assign_from, dict(d)))
    # apply, every spelling
    U, V, W = (inst.bdd(inst.preds[k]) for k in ('u', 'v', 'w'))
    for cop, spell in APPLY_OPS.items():
        for sp in spell:
            if cop == 'OpNot':
                rec('apply', 'u', [cop, sp], call(ctx.apply, sp, U))
            elif cop == 'OpIte':
                rec('apply', 'u', [cop, sp], call(ctx.apply, sp, U, V, W))
            else:
                rec('apply', 'u', [cop, sp], call(ctx.apply, sp, U, V))
    rec('apply', 'u', ['OpAnd', '&3'], call(lambda: U & V))
    # replace_with_bdd on Boolean variables
    bools = [n for n, k in inst.decl if k == 'bool']
    for S in pick_subsets(bools, rng, 4):
        if S:
            subs = {x: rng.choice(['v', 'w']) for x in S}
            rec('replace_with_bdd', 'u', subs, call(
                ctx.replace_with_bdd, U,
                {x: (V if p == 'v' else W) for x, p in subs.items()}))
    # copy to a second context with the same declarations
    other = bc.make_context(inst.decl, inst.backend)
    r = call(ctx.copy, U, other)
    if r[0] == 'ok':
        t = bc.tt_tree(r[1], other.bdd, inst.bitnames)
        ops.append(dict(op='copy', pred='u', args=None, res=('tree', t)))
    # the refinement helpers directly
    ops.append(dict(op='map_bits_to_integers', pred=None, args=None,
                    res=('dict', dict(bv.map_bits_to_integers(ctx.vars)))))
    for S in pick_subsets(names, rng, 6):
        rec('refine_vars', None, S,
            call(lambda: sorted(_fol._refine_vars(S, ctx.vars))))
    # partial cubes that need not come from pick_iter
    for _ in range(lim):
        cube = {b: rng.random() < 0.5 for b in inst.bitnames
                if rng.random() < rng.choice([0.3, 0.6, 0.9])}
        rec('bitfields_to_int_iter', None, cube, call(
            lambda: list(enum._bitfields_to_int_iter(cube, ctx.vars))))
    return ops


def translated_groups(rng, insts, thorough):
    """Cases that evaluate the TRANSLATED functions (gen/EnumGen.v) and compare
    with the real results exactly (order of the list and of the keys).
    Returns [(definitions, [bool terms])], [case descriptions]."""
    import omega.symbolic.enumeration as enum
    import omega.logic.bitvector as bv
    F = f'{GEN_FUEL}%nat'
    groups, cases = [], []

    def obit(x):
        if x is None:
            return 'None'
        return f'(Some {cl.b(x in (True, 1, "1"))})'
    # _enumerate_int: every partial vector up to length 3, random longer ones
    vecs = []
    for n in range(0, 4):
        vecs += [list(v) for v in itertools.product([None, False, True],
                                                    repeat=n)]
    for _ in range(120 if thorough else 30):
        n = rng.randint(4, 8)
        vecs.append([rng.choice([None, None, False, True, '0', '1'])
                     for _ in range(n)])
    terms = []
    for i in range(0, len(vecs), 20):
        chunk = vecs[i:i + 20]
        real = [call(lambda v=v: list(enum._enumerate_int(list(v))))
                for v in chunk]
        lit = cl.lst([cl.lst([obit(b) for b in v]) for v in chunk])
        exp = cl.lst(['None' if r[0] != 'ok' else f'(Some {cl.zs(r[1])})'
                      for r in real])
        terms.append(
            f'list_eqb (opt_eqb (list_eqb Z.eqb)) (map (fun v => '
            f'EnumGen.m_values (EnumGen.enumerate_int {F} v 0)) {lit}) {exp}')
        cases.append(dict(kind='translated _enumerate_int', vectors=chunk))
    # _append_sign_bit: every kind of hint, short bit fields
    for kind in dict.fromkeys(k for k in bc.KINDS if k != 'bool'):
        lo, hi = kind
        w = bc.kind_width(kind)
        d = dict(type='int', signed=(lo < 0 <= hi), dom=(lo, hi), width=w)
        for n in sorted({0, 1, 2, w}):
            bits = [rng.choice([None, False, True]) for _ in range(n)]

            def run(bits=bits, d=d):
                l = list(bits)
                bv._append_sign_bit(l, 'x', d)
                return l
            r = call(run)
            exp = ('None' if r[0] != 'ok'
                   else f'(Some {cl.lst([obit(b) for b in r[1]])})')
            ent = (f'(EnumGen.mkEntry "int" ([] : list bit) '
                   f'{cl.b(d["signed"])} ({cl.z(lo)}, {cl.z(hi)}) {cl.z(w)})')
            terms.append(
                f'opt_eqb (list_eqb obit_eqb) (EnumGen.m_result '
                f'(@EnumGen.append_sign_bit bit unit '
                f'{cl.lst([obit(b) for b in bits])} "x" {ent})) {exp}')
            cases.append(dict(kind='translated _append_sign_bit',
                              bits=bits, entry=d))
    # _take_product_iter
    for _ in range(40 if thorough else 12):
        nv = rng.randint(0, 3)
        names = rng.sample(['x', 'y', 'z', 'w'], nv)
        sets = {x: rng.sample(range(-4, 5), rng.randint(0, 3)) for x in names}
        model = {b: rng.random() < 0.5
                 for b in rng.sample(['p', 'q'], rng.randint(0, 2))}
        r = call(lambda: list(enum._take_product_iter(dict(sets), model)))
        exp = 'None' if r[0] != 'ok' else f'(Some {coq_fasgns(r[1])})'
        slit = cl.lst([f'({bc.q(x)}, {cl.zs(v)})' for x, v in sets.items()])
        terms.append(
            f'opt_eqb exact_eqb (EnumGen.m_values (EnumGen.take_product_iter '
            f'{F} {slit} {bc.coq_fasgn(model)})) {exp}')
        cases.append(dict(kind='translated _take_product_iter', sets=sets,
                          model=model))
    groups.append(('', terms))
    # _bitfields_to_int_iter on the cubes of the generated contexts
    for i, inst in enumerate(insts):
        p = f'g{i}_'
        defs = f'Definition {p}t : tbl := {bc.coq_tbl(inst.ctx)}.'
        ts = []
        for o in inst.ops:
            if o['op'] != 'bitfields_to_int_iter':
                continue
            res = o['res']
            exp = ('None' if res[0] == 'err'
                   else f'(Some {coq_fasgns(res[1])})')
            ts.append(
                f'opt_eqb exact_eqb (EnumGen.m_values '
                f'(EnumGen.bitfields_to_int_iter bit bit_eqb g_bool_bit {F} '
                f'{bc.coq_cube(o["args"], inst.name2pair)} '
                f'(g_table_of {p}t))) {exp}')
            cases.append(dict(kind='translated _bitfields_to_int_iter',
                              decl=inst.decl, cube=o['args']))
        if ts:
            groups.append((defs, ts))
    return groups, cases


def run_single(inst, o):
    """Re-execute exactly one recorded operation (for replays)."""
    ctx = inst.ctx
    op, pred, args = o['op'], o.get('pred'), o.get('args')
    u = inst.bdd(inst.preds[pred]) if pred else None
    extra = None
    if op == 'support':
        r = call(ctx.support, u)
    elif op == 'exist':
        r = call(ctx.exist, set(args), u)
    elif op == 'forall':
        r = call(ctx.forall, set(args), u)
    elif op == 'let_vals':
        r = call(ctx.let, dict(args), u)
    elif op == 'let_vars':
        r = call(ctx.let, dict(args), u)
    elif op == 'assign_from':
        r = call(ctx.assign_from, dict(args))
    elif op == 'count':
        r = call(ctx.count, u, care_vars=args)
    elif op == 'pick_iter':
        r = call(lambda: list(ctx.pick_iter(u, care_vars=args)))
        extra = dict(cubes=[])
    elif op == 'pick':
        r = call(ctx.pick, u, care_vars=args)
    else:
        return None
    kind, val = r
    if kind != 'ok':
        val = ('err', val)
    elif isinstance(val, bool):
        val = ('bool', val)
    elif isinstance(val, int):
        val = ('int', val)
    elif isinstance(val, (set, frozenset)):
        val = ('set', sorted(val))
    elif isinstance(val, list):
        val = ('list', val)
    elif val is None:
        val = ('none', None)
    elif isinstance(val, dict):
        val = ('dict', val)
    else:
        val = ('tree', inst.tree(val))
    out = dict(op=op, pred=pred, args=args, res=val)
    if extra:
        out.update(extra)
    return out


# ------------------------------------------------------------------ Coq terms
def coq_fasgns(ds):
    return cl.lst([bc.coq_fasgn(d) for d in ds])


def term(p, inst, o):
    op, args, res = o['op'], o['args'], o['res']
    T, B = f'{p}t', f'{p}bits'
    u = f'{p}p_{o["pred"]}' if o['pred'] else None

    def tt(model):
        exp = ('None' if res[0] == 'err'
               else f'(Some ({bc.coq_tree(res[1])}))')
        return f'eq_opt_tt {B} ({model}) {exp}'

    def idset(model):
        exp = ('None' if res[0] == 'err'
               else f'(Some {bc.coq_idents(res[1])})')
        return f'eq_opt (set_eqb String.eqb) ({model}) {exp}'

    def care(S):
        return 'None' if S is None else f'(Some {bc.coq_idents(S)})'
    if op == 'support':
        return idset(f'ctx_support {T} {u}')
    if op == 'exist':
        return tt(f'ctx_exist {T} {bc.coq_idents(args)} {u}')
    if op == 'forall':
        return tt(f'ctx_forall {T} {bc.coq_idents(args)} {u}')
    if op == 'let_vals':
        return tt(f'ctx_let_vals {T} {bc.coq_fasgn(args)} {u}')
    if op == 'let_vars':
        return tt(f'ctx_let_vars {T} {bc.coq_ren(dict(args))} {u}')
    if op == 'assign_from':
        return tt(f'ctx_assign_from {T} {bc.coq_fasgn(args)}')
    if op == 'count':
        exp = 'None' if res[0] == 'err' else f'(Some {cl.z(res[1])})'
        return f'eq_opt Z.eqb (ctx_count {T} {u} {care(args)}) {exp}'
    if op == 'pick_iter':
        cubes = cl.lst([bc.coq_cube(c, inst.name2pair) for c in o['cubes']])
        exp = ('None' if res[0] == 'err'
               else f'(Some {coq_fasgns(res[1])})')
        cb = (f'match care_bits_of {T} {care(args)} with Some cb => '
              f'cube_contract_b {B} {u} cb {cubes} | None => false end')
        return (f'{cb} && eq_opt (multiset_eqb fasgn_eqb) '
                f'(ctx_pick_iter {T} {u} {care(args)} {cubes}) {exp}')
    if op == 'pick':
        cubes = cl.lst([bc.coq_cube(c, inst.name2pair) for c in o['cubes']])
        if res[0] == 'none':
            return (f'match ctx_pick {T} {u} {care(args)} {cubes} with '
                    'Some None => true | _ => false end')
        if res[0] == 'dict':
            return (f'match ctx_pick {T} {u} {care(args)} {cubes}, '
                    f'ctx_pick_iter {T} {u} {care(args)} {cubes} with '
                    f'Some (Some _), Some ds => existsb (fasgn_eqb '
                    f'{bc.coq_fasgn(res[1])}) ds | _, _ => false end')
        return (f'match ctx_pick {T} {u} {care(args)} {cubes} with '
                'None => true | _ => false end')
    if op == 'apply':
        cop = args[0]
        V, W = f'{p}p_v', f'{p}p_w'
        if cop == 'OpNot':
            return tt(f'bapply OpNot {u} None None')
        if cop == 'OpIte':
            return tt(f'bapply OpIte {u} (Some {V}) (Some {W})')
        return tt(f'bapply {cop} {u} (Some {V}) None')
    if op == 'replace_with_bdd':
        subs = cl.lst([f'({bc.q(x)}, {p}p_{q})' for x, q in args.items()])
        return tt(f'Some (ctx_replace_with_bdd {subs} {u})')
    if op == 'copy':
        return tt(f'Some {u}')
    if op == 'map_bits_to_integers':
        d = res[1]
        lit = cl.lst([f'({bc.coq_bit(inst.name2pair[b])}, {bc.q(v)})'
                      for b, v in d.items()])
        return (f'let m := map_bits_to_integers {T} in '
                f'Nat.eqb (List.length m) {len(d)}%nat && '
                f'forallb (fun kv => match dict_get bit_eqb (fst kv) m with '
                f'Some x => String.eqb x (snd kv) | None => false end) {lit}')
    if op == 'refine_vars':
        exp = ('None' if res[0] == 'err' else
               f'(Some {bc.coq_bits([inst.name2pair[b] for b in res[1]])})')
        return (f'eq_opt (set_eqb bit_eqb) (refine_vars '
                f'{bc.coq_idents(args)} {T}) {exp}')
    if op == 'bitfields_to_int_iter':
        exp = ('None' if res[0] == 'err'
               else f'(Some {coq_fasgns(res[1])})')
        return (f'eq_opt (multiset_eqb fasgn_eqb) (bitfields_to_int_iter {T} '
                f'{bc.coq_cube(args, inst.name2pair)}) {exp}')
    raise ValueError(op)


def group(i, inst):
    p = f'i{i}_'
    defs = [f'Definition {p}t : tbl := {bc.coq_tbl(inst.ctx)}.',
            f'Definition {p}bits : list bit := all_bits {p}t.']
    for name, tree in inst.preds.items():
        defs.append(f'Definition {p}p_{name} : pred := '
                    f'of_tt {p}bits ({bc.coq_tree(tree)}).')
    terms = [f'list_eqb bit_eqb {p}bits '
             f'{bc.coq_bits([q for _, q in inst.pairs])} && '
             f'list_eqb String.eqb (bit_names {p}t) '
             f'{bc.coq_idents(inst.bitnames)} && naming_injective {p}t']
    keep = []
    for o in inst.ops:
        terms.append(term(p, inst, o))
        keep.append(o)
    return bc.chunk_groups('\n'.join(defs), terms), keep


# ------------------------------------------------------- explicit-set oracle
def fo_sets(inst):
    """All total first-order assignments over the representable ranges and the
    subset satisfying each predicate (own encoding, cofactor truth tables)."""
    ctx = inst.ctx
    allasg = list(bc.all_fo_assignments(ctx, inst.names))
    sets = {}
    for k, t in inst.preds.items():
        sets[k] = [bc.fo_truth(ctx, t, inst.pairs, a) for a in allasg]
    return allasg, sets


def oracle(inst):
    """Explicit sets of assignments; returns list of (op, expected)."""
    ctx = inst.ctx
    names = inst.names
    allasg, sets = fo_sets(inst)
    key = lambda a: tuple(a[n] for n in names)
    index = {key(a): i for i, a in enumerate(allasg)}
    doms = {n: bc.var_values(ctx.vars[n]) for n in names}
    bad = []

    def truth_of_tree(tree):
        return [bc.fo_truth(ctx, tree, inst.pairs, a) for a in allasg]

    def semsupport(tab):
        out = []
        for n in names:
            dep = False
            for a in allasg:
                for v in doms[n]:
                    b = dict(a)
                    b[n] = v
                    if tab[index[key(a)]] != tab[index[key(b)]]:
                        dep = True
                        break
                if dep:
                    break
            if dep:
                out.append(n)
        return sorted(out)
    for o in inst.ops:
        op, args, res = o['op'], o['args'], o['res']
        tab = sets.get(o['pred'])
        exp = None
        if op == 'support':
            exp = ('set', semsupport(tab))
        elif op in ('exist', 'forall'):
            q = any if op == 'exist' else all
            e = []
            for a in allasg:
                vals = itertools.product(*[doms[x] for x in args])
                e.append(q(tab[index[key({**a, **dict(zip(args, vs))})]]
                           for vs in vals))
            exp = ('tab', e)
        elif op == 'let_vals':
            exp = ('tab', [tab[index[key({**a, **args})]] for a in allasg])
        elif op == 'let_vars':
            ren = dict(args)
            ok = all(k != v and ctx.vars[k]['type'] == ctx.vars[v]['type'] and
                     ctx.vars[k].get('dom') == ctx.vars[v].get('dom')
                     or (k == v and ctx.vars[k]['type'] == 'bool')
                     for k, v in ren.items())
            if ok:
                exp = ('tab', [tab[index[key(
                    {n: a[ren.get(n, n)] for n in names})]] for a in allasg])
            else:
                exp = 'reject'
        elif op == 'assign_from':
            exp = ('tab', [all(a[k] == v for k, v in args.items())
                           for a in allasg])
        elif op == 'count':
            sup = semsupport(tab)
            care = sup if args is None else args
            if set(care) >= set(sup):
                sub = list(dict.fromkeys(care))
                seen = set()
                for a, t in zip(allasg, tab):
                    if t:
                        seen.add(tuple(a[n] for n in sub))
                exp = ('int', len(seen))
            else:
                exp = 'reject'
        elif op == 'pick_iter':
            if res[0] != 'list':
                bad.append((o, 'pick_iter must not fail'))
                continue
            sup = semsupport(tab)
            care = set(args or [])
            want = set(sup) | care
            cover = []
            for d in res[1]:
                cover.append({i for i, a in enumerate(allasg)
                              if all(a[k] == v for k, v in d.items())})
            union = set().union(*cover) if cover else set()
            disjoint = sum(len(c) for c in cover) == len(union)
            sat = {i for i, t in enumerate(tab) if t}
            okk = all(set(d) <= want for d in res[1])
            okv = all(v in doms[k] and type(v) is type(doms[k][0])
                      for d in res[1] for k, v in d.items())
            if args is None or care >= set(sup):
                okk = okk and all(set(d) == want for d in res[1])
                okk = okk and len({tuple(sorted(d.items())) for d in res[1]}) \
                    == len(res[1])
            if not (union == sat and disjoint and okk and okv):
                bad.append((o, dict(cover_is_models=union == sat,
                                    pairwise_disjoint=disjoint, keys_ok=okk,
                                    values_representable=okv)))
            continue
        elif op == 'pick':
            if res[0] == 'none':
                if any(tab):
                    bad.append((o, 'pick returned None for a satisfiable u'))
            elif res[0] == 'dict':
                d = res[1]
                if not all(t for a, t in zip(allasg, tab)
                           if all(a[k] == v for k, v in d.items())):
                    bad.append((o, 'picked assignment has a non-model '
                                'extension'))
                elif not set(d) >= set(args or []):
                    bad.append((o, 'picked assignment lacks a care variable'))
            else:
                bad.append((o, 'pick failed'))
            continue
        elif op == 'apply':
            A, Bt, C = sets['u'], sets['v'], sets['w']
            f = {'OpNot': lambda a, b, c: not a,
                 'OpOr': lambda a, b, c: a or b,
                 'OpAnd': lambda a, b, c: a and b,
                 'OpXor': lambda a, b, c: a != b,
                 'OpImplies': lambda a, b, c: (not a) or b,
                 'OpEquiv': lambda a, b, c: a == b,
                 'OpDiff': lambda a, b, c: a and not b,
                 'OpIte': lambda a, b, c: b if a else c}[args[0]]
            exp = ('tab', [f(a, b, c) for a, b, c in zip(A, Bt, C)])
        elif op == 'replace_with_bdd':
            e = []
            for a in allasg:
                b = dict(a)
                for x, q in args.items():
                    b[x] = sets[q][index[key(a)]]
                e.append(tab[index[key(b)]])
            exp = ('tab', e)
        elif op == 'copy':
            exp = ('tab', tab)
        if exp is None:
            continue
        if exp == 'reject':
            ok = res[0] == 'err'
        elif exp[0] == 'tab':
            ok = res[0] == 'tree' and truth_of_tree(res[1]) == exp[1]
        else:
            ok = (res[0], res[1]) == exp
        if not ok:
            bad.append((o, exp if exp == 'reject' or exp[0] != 'tab'
                        else 'set of assignments differs'))
    # count == number yielded, for care >= support
    by = {}
    for o in inst.ops:
        if o['op'] in ('count', 'pick_iter'):
            by.setdefault((o['pred'], None if o['args'] is None
                           else tuple(o['args'])), {})[o['op']] = o
    for k, d in by.items():
        if 'count' in d and 'pick_iter' in d and d['count']['res'][0] == 'int':
            if d['pick_iter']['res'][0] != 'list' or \
                    d['count']['res'][1] != len(d['pick_iter']['res'][1]):
                bad.append((d['count'], 'count differs from the number of '
                            'assignments yielded by pick_iter'))
    return bad


def build_instance(rng, backend, max_bits, thorough):
    # redraw instances wider than intended (possible only if the declaration
    # code changed), to bound the cost
    for _ in range(50):
        inst = Inst(random_decl(rng, max_bits), backend)
        if inst.n <= max_bits:
            break
    inst.preds = make_preds(rng, inst)
    inst.ops = run_ops(rng, inst, thorough)
    return inst


def enumerate_terms(rng, thorough):
    """enumeration._enumerate_int against the model (sorted lists: the order
    of a generator is not part of the meaning, duplicates are)."""
    import omega.symbolic.enumeration as enum
    vecs = []
    for n in range(1, 5):
        vecs += [list(v) for v in itertools.product([None, False, True],
                                                    repeat=n)]
    for _ in range(400 if thorough else 80):
        n = rng.randint(5, 9)
        vecs.append([rng.choice([None, None, False, True]) for _ in range(n)])
    # sign-definite fields carry the constant sign as the strings '0' / '1'
    terms, cases = [], []
    for i in range(0, len(vecs), 25):
        chunk = vecs[i:i + 25]
        real = [sorted(enum._enumerate_int(list(v))) for v in chunk]
        lit = cl.lst([cl.lst([cl.opt(b, cl.b) for b in v]) for v in chunk])
        terms.append(f'list_eqb (list_eqb Z.eqb) (map (fun v => sort_z '
                     f'(enumerate_int v)) {lit}) '
                     f'{cl.lst([cl.zs(r) for r in real])}')
        cases.append(chunk)
    return terms, cases, len(vecs)


def collision_probe(backend, order):
    """A Boolean variable named like a bit of an integer, declared in two
    separate calls (both names are legal identifiers; within ONE call the
    library rejects the pair).  Returns None if the declarations are rejected
    or the variables are independent, else a description of the aliasing."""
    import omega.symbolic.fol as _fol
    ctx = _fol.Context()
    bc.set_backend(ctx, backend)
    try:
        if order == 'bool_first':
            ctx.declare(b_0='bool')
            ctx.declare(b=(0, 3))
        else:
            ctx.declare(b=(0, 3))
            ctx.declare(b_0='bool')
    except ValueError:
        return None           # rejected: nothing to alias
    u = ctx.add_expr('b_0')
    sup = sorted(ctx.support(u))
    independent = ctx.add_expr('(b = 1) => b_0') != ctx.true
    qf = ctx.exist({'b'}, u) == u      # quantifying b must not touch b_0
    if bc.naming_ok(ctx) and sup == ['b_0'] and independent and qf:
        return None
    return dict(vars={k: dict(v) for k, v in ctx.vars.items()},
                bdd_vars=sorted(ctx.bdd.vars), support_of_b_0=sup,
                b_eq_1_implies_b_0=not independent,
                exist_b_leaves_b_0=qf)


def late_declaration_probe(backend, how):
    """Queries interleaved with declarations: identifiers declared AFTER the
    first queries (through declare, add_vars, or the declaration methods of
    temporal.Automaton, which call add_vars) must be treated by every later
    query exactly like the earlier ones.  Judged against explicit enumeration
    of the representable values (plain Python evaluation of the formula).
    Returns None or a description of what differs."""
    import omega.symbolic.fol as _fol
    import omega.symbolic.temporal as trl
    import omega.logic.bitvector as bv
    aut = how == 'automaton'
    ctx = trl.Automaton() if aut else _fol.Context()
    bc.set_backend(ctx, backend)
    pr = "'" if aut else ''
    X, P, C, Q = 'x' + pr, 'p' + pr, 'c', 'q' + pr
    if aut:
        ctx.declare_variables(x=(0, 5), p='bool')
    else:
        ctx.declare(x=(0, 5), p='bool')
    out = {}
    # first round of queries (whatever they cache must not outlive it)
    u = ctx.add_expr(rf'({X} < 3) /\ {P}')
    out['early_support'] = sorted(ctx.support(u))
    out['early_count'] = ctx.count(u)
    list(ctx.pick_iter(u))
    ctx.exist({X}, u)
    # late declarations
    if how == 'declare':
        ctx.declare(c=(-3, 4), q='bool')
    elif how == 'add_vars':
        ctx.add_vars(bv.make_symbol_table(dict(c=(-3, 4), q='bool')))
    else:
        ctx.declare_constants(c=(-3, 4))
        ctx.declare_variables(q='bool')
    v = ctx.add_expr(rf'(({C} = -2) \/ {Q}) /\ ({X} < 3)')
    f = lambda c, q, x: (c == -2 or q) and x < 3
    doms = {C: bc.var_values(ctx.vars[C]), Q: [False, True],
            X: bc.var_values(ctx.vars[X])}
    models = {(c, q, x) for c in doms[C] for q in doms[Q] for x in doms[X]
              if f(c, q, x)}
    out['support'] = sorted(ctx.support(v))
    out['count'] = ctx.count(v)
    picks = list(ctx.pick_iter(v))
    out['pick_keys_ok'] = all(set(d) == {C, Q, X} for d in picks)
    out['pick_models_ok'] = out['pick_keys_ok'] and \
        sorted((d[C], d[Q], d[X]) for d in picks) == sorted(models)
    out['exist_support'] = sorted(ctx.support(ctx.exist({X}, v)))
    out['let_support'] = sorted(ctx.support(ctx.let({C: -2}, v)))
    out['care_count'] = ctx.count(v, care_vars=[C, Q, X, P])
    exp = dict(early_support=sorted([X, P]), early_count=3,
               support=sorted([C, Q, X]), count=len(models),
               pick_keys_ok=True, pick_models_ok=True,
               exist_support=sorted([C, Q]), let_support=[X],
               care_count=2 * len(models))
    if out == exp:
        return None
    return dict(got={k: out[k] for k in out if out[k] != exp[k]},
                expected={k: exp[k] for k in out if out[k] != exp[k]})


def correspond(ctx):
    mism = []
    for backend in ('autoref', 'cudd'):
        for how in ('declare', 'add_vars', 'automaton'):
            try:
                r = late_declaration_probe(backend, how)
            except Exception as e:
                r = dict(raised=repr(e))
            if r is not None:
                mism.append(Mismatch(
                    'queries after a late declaration (identifiers declared '
                    'after earlier queries) are not those of the set of '
                    'assignments',
                    dict(kind='late_declaration', backend=backend, how=how),
                    impl=r, property_fails=True))
    for backend in ('autoref', 'cudd'):
        for order in ('bool_first', 'int_first'):
            r = collision_probe(backend, order)
            if r is not None:
                mism.append(Mismatch(
                    'a Boolean variable b_0 and an integer b declared in '
                    'separate calls share the bit b_0 (support, exist and '
                    'let on this context are not those of the set of '
                    'assignments)',
                    dict(kind='collision', backend=backend, order=order),
                    impl=r, key='bitname-collision', property_fails=True))
                break
        else:
            continue
        break
    n_inst = 80 if ctx.thorough else 8
    max_bits = 9 if ctx.thorough else 8
    insts = []
    for i in range(n_inst):
        backend = 'cudd' if i % 2 else 'autoref'
        try:
            inst = build_instance(ctx.rng, backend, max_bits, ctx.thorough)
        except Exception as e:
            mism.append(Mismatch('implementation raised unexpectedly',
                                 None, impl=repr(e)))
            continue
        if not bc.naming_ok(inst.ctx):
            mism.append(Mismatch('bit naming not injective', inst.case(),
                                 property_fails=True))
            continue
        insts.append(inst)
    ctx.log(f'ran {len(insts)} contexts on the real code, '
            f'{sum(len(i.ops) for i in insts)} operations')
    groups, kept = [], []
    for i, inst in enumerate(insts):
        g, keep = group(i, inst)
        groups += g
        kept.append(keep)
    res = ctx.eval_groups('ops', HEADER, groups, shard=1)
    ctx.log('model evaluated')
    k = 0
    hist, nontriv, rejected = {}, 0, 0
    for inst, keep in zip(insts, kept):
        if not res[k]:
            mism.append(Mismatch('bit order / bit names of the model differ',
                                 inst.case()))
        k += 1
        for o in keep:
            hist[o['op']] = hist.get(o['op'], 0) + 1
            if o['res'][0] == 'err':
                rejected += 1
            elif o['res'][0] == 'tree' and not isinstance(o['res'][1], bool):
                nontriv += 1
            elif o['res'][0] in ('set', 'list') and o['res'][1]:
                nontriv += 1
            elif o['res'][0] == 'int' and o['res'][1] > 1:
                nontriv += 1
            if not res[k]:
                mism.append(Mismatch(f'{o["op"]} differs from the model',
                                     inst.case(o), impl=o['res']))
            k += 1
    terms, cases, nvec = enumerate_terms(ctx.rng, ctx.thorough)
    res2 = ctx.eval_bools('enum', HEADER, terms)
    for j, ok in enumerate(res2):
        if not ok:
            mism.append(Mismatch('_enumerate_int differs from the model',
                                 dict(kind='enumerate', vectors=cases[j])))
    # the TRANSLATED functions, evaluated in Coq, against the real results
    # (exact order).  gen/EnumGen.v is regenerated under the lock first: another
    # run (other OMEGA_REPO) may have replaced it since prove().
    ngen = 0
    try:
        with ctx.coq_lock():
            enum_gen.ensure_enum(ctx)
            ggroups, gcases = translated_groups(ctx.rng, insts, ctx.thorough)
            res3 = ctx.eval_groups('enumgen', HEADER_GEN, ggroups)
        ngen = len(res3)
        for j, ok in enumerate(res3):
            if not ok:
                mism.append(Mismatch(
                    'the translated code (gen/EnumGen.v) evaluated in Coq '
                    'differs from the real result: ' + gcases[j]['kind'],
                    gcases[j]))
    except Broken as b:
        mism.append(Mismatch('the translated enumeration code cannot be '
                             f'evaluated: {b}', dict(kind='translated')))
    ctx.cov['evaluations'] += len(res) + len(res2) + ngen
    ctx.cov['distinct_nontrivial'] += nontriv
    # explicit-set oracle (independent of the Coq model) on every run
    orc = 0
    n_or = len(insts) if ctx.thorough else min(len(insts), 6)
    for inst in insts[:n_or]:
        orc += 1
        for o, exp in oracle(inst)[:1]:
            mism.append(Mismatch(
                f'{o["op"]}: explicit sets of assignments disagree',
                inst.case(o), impl=o['res'], model=exp, property_fails=True))
    ctx.log('explicit-set oracle done')
    ctx.cov['rule'] = (
        'random contexts of 2-4 variables (Boolean, unsigned, signed, '
        'all-negative, singleton kinds; 40% with same-kind variables), random '
        'predicates as truth tables over ALL bit assignments (so extending '
        'outside the hints), a parsed formula and TRUE; per predicate: '
        'support; exist/forall/let-values/count/pick_iter/pick for subsets of '
        'the variables as quantified/assigned/care sets (supersets and strict '
        'subsets of the support, None); renamings (same-typed pairs, swap, '
        'chain, self, ill-typed -> rejected); assign_from; every spelling of '
        'apply; replace_with_bdd; copy; map_bits_to_integers, _refine_vars, '
        '_bitfields_to_int_iter on random partial cubes; _enumerate_int on all '
        'partial vectors of length <= 4 and random longer ones. Results are '
        'compared as truth tables over all bit assignments / multisets of '
        'dictionaries / integers with the model evaluated by vm_compute, and '
        'with explicit sets of first-order assignments in Python; the '
        'dd.pick_iter contract is evaluated in Coq on the real cubes; '
        'alternating back ends. non-trivial = non-constant table, non-empty '
        'list, count > 1')
    if insts:
        ctx.cov['samples'] = [dict(
            context=dict(decl=insts[0].decl, backend=insts[0].backend),
            ops=[dict(op=o['op'], pred=o['pred'], args=o['args'],
                      result=(o['res'][0], str(o['res'][1])[:80]))
                 for o in insts[0].ops[:8]])]
    ctx.extra['correspondence'] = dict(
        contexts=len(insts), operations=len(res) - len(insts),
        by_operation=hist,
        rejected_by_assertion=rejected, enumerate_int_vectors=nvec,
        translated_code_evaluations=ngen,
        oracle_crosschecked_contexts=orc, mismatches=len(mism),
        backends=['autoref', 'cudd'], max_bits=max_bits)
    ctx.extra['observation'] = (
        '_int_to_bit_assignment wraps an out-of-limit value of a signed '
        'variable (outside the quantifier of C07: representable ranges); see '
        'evidence/C18.json out_of_limit_stores_observation and the Examples '
        'int_to_bit_assignment_wraps_signed / _rejects_unsigned')
    return mism


# ------------------------------------------------------------ search / replay
def _detuple(t):
    if isinstance(t, bool):
        return t
    return tuple(_detuple(x) if not isinstance(x, str) else x for x in t)


def check_case(case, rng=None):
    if case.get('kind') == 'collision':
        r = collision_probe(case['backend'], case['order'])
        if r is None:
            return None
        return Failing(
            'Boolean b_0 and integer b (declared in separate calls) are '
            'aliased: support(b_0) = %s, (b = 1) => b_0 is valid: %s'
            % (r['support_of_b_0'], r['b_eq_1_implies_b_0']),
            case, expected='independent variables, or the second declaration '
            'rejected', got=r, key='bitname-collision',
            replay_cmd='./check C07 --replay <this file>')
    if case.get('kind') == 'late_declaration':
        try:
            r = late_declaration_probe(case['backend'], case['how'])
        except Exception as e:
            r = dict(raised=repr(e))
        if r is None:
            return None
        return Failing(
            'after declare x, p; support/count/pick_iter/exist; then a late '
            'declaration of c, q (%s), the queries on ((c = -2) \\/ q) /\\ '
            '(x < 3) differ from explicit enumeration: %s'
            % (case['how'], r), case, expected=r.get('expected'),
            got=r.get('got', r),
            replay_cmd='./check C07 --replay <this file>')
    if case.get('kind') == 'enumerate':
        import omega.symbolic.enumeration as enum
        for v in case['vectors']:
            got = sorted(enum._enumerate_int(list(v)))
            n = len(v)
            exp = []
            for bits in itertools.product([False, True], repeat=n):
                if all(a is None or a == b for a, b in zip(v, bits)):
                    exp.append(sum(2 ** i for i in range(n - 1) if bits[i])
                               - (2 ** (n - 1) if bits[-1] else 0))
            if got != sorted(exp):
                return Failing(f'_enumerate_int({v}) is not the set of values '
                               'of the agreeing bit vectors, each once',
                               dict(kind='enumerate', vectors=[v]),
                               expected=sorted(exp), got=got,
                               replay_cmd='./check C07 --replay <this file>')
        return None
    kd = lambda x: (x[0], x[1] if x[1] == 'bool' else tuple(x[1]))
    inst = Inst([kd(x) for x in case['decl']], case['backend'])
    inst.preds = {k: _detuple(v) for k, v in case['preds'].items()}
    inst.ops = []
    if case.get('op'):
        o = dict(case['op'])
        if o.get('op') == 'let_vals' or o.get('op') == 'assign_from':
            o['args'] = dict(o['args'])
        one = run_single(inst, o)
        if one is not None:
            inst.ops.append(one)
    inst.ops += run_ops(rng or random.Random(0), inst, True)
    bad = oracle(inst)
    if bad:
        o, exp = bad[0]
        oo = {k: v for k, v in o.items() if k != 'cubes'}
        return Failing(
            f'{o["op"]}({o["pred"]}, {o["args"]}) differs from the operation '
            'on the explicit set of assignments', inst.case(oo),
            expected=exp, got=o['res'],
            replay_cmd='./check C07 --replay <this file>')
    return None


def search(ctx, broken, mismatches):
    for m in mismatches:
        if m.case is None:
            continue
        try:
            f = check_case(m.case)
        except Exception as e:
            f = Failing('implementation raised ' + repr(e), m.case)
        if f:
            return [f]
    rng = ctx.rng
    # _enumerate_int exhaustively on short vectors
    for n in range(1, 7):
        vs = [list(v) for v in itertools.product([None, False, True], repeat=n)]
        f = check_case(dict(kind='enumerate', vectors=vs))
        if f:
            return [f]
    for i in range(80 if ctx.thorough else 25):
        try:
            inst = build_instance(rng, 'cudd' if i % 2 else 'autoref', 8, True)
            bad = oracle(inst)
        except Exception as e:
            return [Failing('implementation raised ' + repr(e), None)]
        if bad:
            o, exp = bad[0]
            oo = {k: v for k, v in o.items() if k != 'cubes'}
            return [Failing(
                f'{o["op"]}({o["pred"]}, {o["args"]}) differs from the '
                'operation on the explicit set of assignments', inst.case(oo),
                expected=exp, got=o['res'],
                replay_cmd='./check C07 --replay <this file>')]
    return []


def replay(path):
    d = json.load(open(path))
    case = d.get('input') or d.get('case')
    if case is None:
        print('no input recorded (broken obligation):', d.get('broken'))
        return 1
    f = check_case(case)
    if f:
        print('still fails:', f.what)
        return 1
    print('passes')
    return 0
