(* L4Enum / EnumArena: what the Python constructs used by
   omega/games/enumeration.py mean, over the arena model of L4Enum.  The
   generated file gen/GamesEnumGen.v (translator tools/py2coq_games_enum.py)
   is written in terms of these definitions.  No proofs here.

   ARENA.  As in EnumModel, a valuation of ALL the variables of one player is
   one index: x < nx for the environment, y < ny for the component (memory
   included).  Accordingly there are four (vector-valued) variables:
   [U Env], [U Sys] (unprimed) and [P Env], [P Sys] (primed);
   `aut.varlist['env']` is the one-element list [U Env].

   BDDS BY MEANING, CANONICALLY.  A BDD is the table of a Boolean function of
   the four variables over the arena ([mkv]); every operation returns a table
   built by [mkv], so two results with the same meaning are EQUAL (as reduced
   ordered BDDs are) and `u == aut.false` is equality of tables ([bdd_eqb]).

   DICTS are insertion-ordered association lists; an assignment (`dict`
   variable -> value) is [asg].  Exceptions (failed assert, KeyError,
   TypeError on None, raise) are [None]. *)
From Coq Require Import List Bool Arith Ascii String.
Import ListNotations.

(* ---- variables ---------------------------------------------------------- *)
Inductive player := Env | Sys.
Inductive var := U (p : player) | P (p : player).

Definition player_eqb (a b : player) : bool :=
  match a, b with Env, Env | Sys, Sys => true | _, _ => false end.
Definition var_eqb (a b : var) : bool :=
  match a, b with
  | U p, U q | P p, P q => player_eqb p q
  | _, _ => false
  end.

(* omega.logic.syntax.prime on a variable name; priming a primed name gives a
   name that is not declared: failure *)
Definition stx_prime (w : var) : option var :=
  match w with U p => Some (P p) | P _ => None end.

(* ---- the option monad ---------------------------------------------------- *)
Definition m_assert {A} (c : bool) (k : option A) : option A :=
  if c then k else None.
Definition m_bind {A B} (m : option A) (k : A -> option B) : option B :=
  match m with Some a => k a | None => None end.
Fixpoint m_map {A B} (f : A -> option B) (l : list A) : option (list B) :=
  match l with
  | [] => Some []
  | a :: r =>
      match f a with
      | Some b => match m_map f r with Some t => Some (b :: t) | None => None end
      | None => None
      end
  end.
Fixpoint m_for {A St} (body : St -> A -> option St) (l : list A) (s : St)
    : option St :=
  match l with
  | [] => Some s
  | a :: r => match body s a with Some s' => m_for body r s' | None => None end
  end.
(* `while cond: body` with recursion on fuel; None when the fuel runs out *)
Fixpoint m_while {St} (fuel : nat) (cond : St -> bool) (body : St -> option St)
    (s : St) : option St :=
  if cond s then
    match fuel with
    | 0 => None
    | Datatypes.S k =>
        match body s with Some s' => m_while k cond body s' | None => None end
    end
  else Some s.

(* ---- lists, sets, dicts ---------------------------------------------------- *)
Definition is_nil {A} (l : list A) : bool :=
  match l with [] => true | _ :: _ => false end.
(* list.pop(): the LAST element; IndexError = None *)
Definition py_pop {A} (l : list A) : option (list A * A) :=
  match rev l with [] => None | a :: r => Some (rev r, a) end.

Section Dict.
Context {K V : Type}.
Variable eqb : K -> K -> bool.
Fixpoint dict_get (k : K) (d : list (K * V)) : option V :=
  match d with
  | [] => None
  | (k', v) :: r => if eqb k k' then Some v else dict_get k r
  end.
Definition dict_has (k : K) (d : list (K * V)) : bool :=
  match dict_get k d with Some _ => true | None => false end.
(* d[k] = v: replace in place, or append *)
Fixpoint dict_set (k : K) (v : V) (d : list (K * V)) : list (K * V) :=
  match d with
  | [] => [(k, v)]
  | (k', v') :: r => if eqb k k' then (k, v) :: r else (k', v') :: dict_set k v r
  end.
(* d.update(e) *)
Definition dict_update (d e : list (K * V)) : list (K * V) :=
  fold_left (fun acc kv => dict_set (fst kv) (snd kv) acc) e d.
(* {k: v for ...} from the items in order *)
Definition dict_of_items (l : list (K * V)) : list (K * V) := dict_update [] l.
End Dict.

Section SetOps.
Context {A : Type}.
Variable eqb : A -> A -> bool.
Definition mem (a : A) (l : list A) : bool := existsb (eqb a) l.
Definition set_subset (a b : list A) : bool := forallb (fun x => mem x b) a.
(* a == b for sets (as lists; order and repetition immaterial) *)
Definition set_eqb (a b : list A) : bool := set_subset a b && set_subset b a.
(* set(a).union(b) *)
Definition set_union (a b : list A) : list A :=
  fold_left (fun acc x => if mem x acc then acc else acc ++ [x]) (a ++ b) [].
End SetOps.

Fixpoint list_eqb {A} (eqb : A -> A -> bool) (a b : list A) : bool :=
  match a, b with
  | [], [] => true
  | x :: r, y :: t => eqb x y && list_eqb eqb r t
  | _, _ => false
  end.

(* an assignment: variable -> index of the valuation of that player's
   variables *)
Definition asg := list (var * nat).
(* the tuple of a node's values in the order of `keys` *)
Definition key := list nat.
Definition key_eqb : key -> key -> bool := list_eqb Nat.eqb.

(* ---- BDDs by meaning, canonical tables ------------------------------------- *)
Record val := mkV { vx : nat; vy : nat; vxp : nat; vyp : nat }.
Definition get (r : val) (w : var) : nat :=
  match w with
  | U Env => vx r | U Sys => vy r | P Env => vxp r | P Sys => vyp r
  end.
Definition upd (r : val) (w : var) (i : nat) : val :=
  match w with
  | U Env => mkV i (vy r) (vxp r) (vyp r)
  | U Sys => mkV (vx r) i (vxp r) (vyp r)
  | P Env => mkV (vx r) (vy r) i (vyp r)
  | P Sys => mkV (vx r) (vy r) (vxp r) i
  end.

Definition bdd := list (list (list (list bool))).
Definition bdd_eqb : bdd -> bdd -> bool :=
  list_eqb (list_eqb (list_eqb (list_eqb Bool.eqb))).

Section Arena.
Variables nx ny : nat.

Definition rng (w : var) : nat :=
  match w with U Env | P Env => nx | U Sys | P Sys => ny end.

Definition mk (f : nat -> nat -> nat -> nat -> bool) : bdd :=
  map (fun x => map (fun y => map (fun x' => map (fun y' => f x y x' y')
    (seq 0 ny)) (seq 0 nx)) (seq 0 ny)) (seq 0 nx).
Definition ev (u : bdd) (x y x' y' : nat) : bool :=
  nth y' (nth x' (nth y (nth x u []) []) []) false.
Definition mkv (f : val -> bool) : bdd :=
  mk (fun x y x' y' => f (mkV x y x' y')).
Definition evv (u : bdd) (r : val) : bool := ev u (vx r) (vy r) (vxp r) (vyp r).

Definition btrue : bdd := mkv (fun _ => true).
Definition bfalse : bdd := mkv (fun _ => false).
Definition band (u v : bdd) : bdd := mkv (fun r => evv u r && evv v r).
Definition bor (u v : bdd) : bdd := mkv (fun r => evv u r || evv v r).
Definition bnot (u : bdd) : bdd := mkv (fun r => negb (evv u r)).

(* aut.let(values, u): substitute values for the variables values assigns *)
Definition sub (d : asg) (r : val) (w : var) : nat :=
  match dict_get var_eqb w d with Some i => i | None => get r w end.
Definition subst_val (d : asg) (r : val) : val :=
  mkV (sub d r (U Env)) (sub d r (U Sys)) (sub d r (P Env)) (sub d r (P Sys)).
Definition blet (d : asg) (u : bdd) : bdd := mkv (fun r => evv u (subst_val d r)).

(* aut.let(renaming, u): substitute variables for variables, simultaneously *)
Definition rn (m : list (var * var)) (r : val) (w : var) : nat :=
  match dict_get var_eqb w m with Some w2 => get r w2 | None => get r w end.
Definition ren_val (m : list (var * var)) (r : val) : val :=
  mkV (rn m r (U Env)) (rn m r (U Sys)) (rn m r (P Env)) (rn m r (P Sys)).
Definition brename (m : list (var * var)) (u : bdd) : bdd :=
  mkv (fun r => evv u (ren_val m r)).

(* aut.exist(vars, u), aut.forall(vars, u) *)
Definition bexist1 (w : var) (u : bdd) : bdd :=
  mkv (fun r => existsb (fun i => evv u (upd r w i)) (seq 0 (rng w))).
Definition bforall1 (w : var) (u : bdd) : bdd :=
  mkv (fun r => forallb (fun i => evv u (upd r w i)) (seq 0 (rng w))).
Definition bexist (ws : list var) (u : bdd) : bdd := fold_right bexist1 u ws.
Definition bforall (ws : list var) (u : bdd) : bdd := fold_right bforall1 u ws.

(* the BDD of the conjunction "var = value" over an assignment *)
Definition cube (d : asg) : bdd :=
  mkv (fun r => forallb (fun wi => Nat.eqb (get r (fst wi)) (snd wi)) d).

(* ---- the automaton: dicts keyed by player names ---------------------------- *)
Record automaton := mkAut {
  a_varlist : list (string * list var);
  a_init : list (string * bdd);
  a_action : list (string * bdd);
  a_moore : bool }.
Definition set_varlist (a : automaton) v := mkAut v (a_init a) (a_action a) (a_moore a).
Definition set_init (a : automaton) v := mkAut (a_varlist a) v (a_action a) (a_moore a).
Definition set_action (a : automaton) v := mkAut (a_varlist a) (a_init a) v (a_moore a).
Definition set_moore (a : automaton) v := mkAut (a_varlist a) (a_init a) (a_action a) v.

(* enumeration._add_to_visited(values, visited, aut): NOT translated (it
   builds a formula as a string and has it parsed: C06's subject); taken as
   what it denotes, visited \/ (conjunction of var = value) *)
Definition add_to_visited (d : asg) (visited : bdd) (a : automaton) : bdd :=
  bor visited (cube d).

(* temporal.Automaton.prime_varlists(): for every unprimed key k adds the key
   k' with the primed variables (hand model of a method outside
   enumeration.py; the translated functions never read the primed keys) *)
Definition key_isprimed (k : string) : bool :=
  match rev (list_ascii_of_string k) with
  | c :: _ => Ascii.eqb c "'"%char
  | [] => false
  end.
Definition prime_varlists (a : automaton) : option automaton :=
  m_bind (m_for (fun acc (kv : string * list var) =>
            if key_isprimed (fst kv) then Some acc
            else m_bind (m_map stx_prime (snd kv)) (fun pv =>
                 Some (dict_set String.eqb (fst kv ++ "'")%string pv acc)))
          (a_varlist a) (a_varlist a))
    (fun v => Some (set_varlist a v)).

End Arena.

(* ---- networkx.DiGraph --------------------------------------------------------- *)
Record nxgraph := mkNX {
  g_nodes : list (nat * asg);      (* node -> attribute dict, insertion order *)
  g_edges : list (nat * nat);      (* set of edges, insertion order *)
  g_initial : option (list nat) }. (* the attribute `initial_nodes` (a set) *)

Definition nx_empty : nxgraph := mkNX [] [] None.
Definition nx_len (g : nxgraph) : nat := List.length (g_nodes g).
Definition nx_has_node (g : nxgraph) (u : nat) : bool := dict_has Nat.eqb u (g_nodes g).
(* g.nodes[u]; KeyError = None *)
Definition nx_node_attrs (g : nxgraph) (u : nat) : option asg := dict_get Nat.eqb u (g_nodes g).
(* g.add_node(u, **d): new node with attributes d, or update of the
   attributes of an existing node *)
Definition nx_add_node (g : nxgraph) (u : nat) (d : asg) : nxgraph :=
  let old := match dict_get Nat.eqb u (g_nodes g) with Some a => a | None => [] end in
  mkNX (dict_set Nat.eqb u (dict_update var_eqb old d) (g_nodes g)) (g_edges g) (g_initial g).
Definition nx_ensure_node (u : nat) (ns : list (nat * asg)) : list (nat * asg) :=
  if dict_has Nat.eqb u ns then ns else ns ++ [(u, [])].
Definition edge_eqb (e f : nat * nat) : bool :=
  Nat.eqb (fst e) (fst f) && Nat.eqb (snd e) (snd f).
(* g.add_edge(a, b): adds missing end points; an edge is there at most once *)
Definition nx_add_edge (g : nxgraph) (a b : nat) : nxgraph :=
  mkNX (nx_ensure_node b (nx_ensure_node a (g_nodes g)))
       (if existsb (edge_eqb (a, b)) (g_edges g) then g_edges g else g_edges g ++ [(a, b)])
       (g_initial g).
Definition nx_set_initial (g : nxgraph) (l : list nat) : nxgraph :=
  mkNX (g_nodes g) (g_edges g) (Some l).
