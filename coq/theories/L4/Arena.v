(* L4 / Arena: finite arenas and the BDD algebra "by meaning".

   A BDD over the variables of a game is modelled by the set it denotes:
   a Boolean function of a full valuation [V] of
     constants (vc), environment variables (vx), component variables (vy)
     and the primed copies (vxp, vyp).
   Valuations of a *group* of variables are indices below a bound
   (nx for the environment's bit range, ny for the component's, nc for the
   constants), so "all assignments inside the bit range" is [seq 0 n].

   Every operation tabulates its result ([memo]) so that evaluation under
   call-by-value ([vm_compute]) costs what an explicit-set algorithm costs;
   [memo_id] shows tabulation does not change the function, so proofs never
   see it.  No proofs about the algebra's *laws* live here (see ArenaFacts.v);
   this file must keep compiling when a proof elsewhere breaks. *)
From Coq Require Import List Bool Arith Lia.
Import ListNotations.

Record V := mkV { vc : nat; vx : nat; vy : nat; vxp : nat; vyp : nat }.

Inductive group := Env | Sys | Envp | Sysp.

Inductive qinit_t := QAA | QEE | QAE | QEA.
Definition qinit_eqb (a b : qinit_t) : bool :=
  match a, b with QAA, QAA | QEE, QEE | QAE, QAE | QEA, QEA => true | _, _ => false end.

Section Arena.
Variables nc nx ny : nat.

Definition bdd := V -> bool.

Definition dom (g : group) : list nat :=
  match g with Env | Envp => seq 0 nx | Sys | Sysp => seq 0 ny end.

Definition setg (g : group) (v : V) (a : nat) : V :=
  match g with
  | Env => mkV (vc v) a (vy v) (vxp v) (vyp v)
  | Sys => mkV (vc v) (vx v) a (vxp v) (vyp v)
  | Envp => mkV (vc v) (vx v) (vy v) a (vyp v)
  | Sysp => mkV (vc v) (vx v) (vy v) (vxp v) a
  end.

(* --- tabulation -------------------------------------------------------- *)
Definition tab1 {A} (n : nat) (f : nat -> A) : list A := map f (seq 0 n).

Definition table (f : V -> bool) : list (list (list (list (list bool)))) :=
  tab1 nc (fun c => tab1 nx (fun x => tab1 ny (fun y =>
    tab1 nx (fun xp => tab1 ny (fun yp => f (mkV c x y xp yp)))))).

Definition in_range (v : V) : bool :=
  (vc v <? nc) && (vx v <? nx) && (vy v <? ny) && (vxp v <? nx) && (vyp v <? ny).

Definition lookup (t : list (list (list (list (list bool))))) (v : V) : bool :=
  nth (vyp v) (nth (vxp v) (nth (vy v) (nth (vx v) (nth (vc v) t []) []) []) []) false.

Definition memo (f : V -> bool) : bdd :=
  let t := table f in
  fun v => if in_range v then lookup t v else f v.

(* --- the algebra ------------------------------------------------------- *)
Definition btrue : bdd := fun _ => true.
Definition bfalse : bdd := fun _ => false.
Definition band (a b : bdd) : bdd := memo (fun v => a v && b v).
Definition bor (a b : bdd) : bdd := memo (fun v => a v || b v).
Definition bnot (a : bdd) : bdd := memo (fun v => negb (a v)).

Fixpoint forall_raw (gs : list group) (u : bdd) : bdd :=
  match gs with
  | [] => u
  | g :: r => fun v => forallb (fun a => forall_raw r u (setg g v a)) (dom g)
  end.
Fixpoint exist_raw (gs : list group) (u : bdd) : bdd :=
  match gs with
  | [] => u
  | g :: r => fun v => existsb (fun a => exist_raw r u (setg g v a)) (dom g)
  end.
Definition forall_ (gs : list group) (u : bdd) : bdd := memo (forall_raw gs u).
Definition exist_ (gs : list group) (u : bdd) : bdd := memo (exist_raw gs u).

(* [prm.prime]: substitute x' for x and y' for y (constants untouched). *)
Definition prime (u : bdd) : bdd :=
  memo (fun v => u (mkV (vc v) (vxp v) (vyp v) (vxp v) (vyp v))).
(* [prm.unprime]: substitute x for x' and y for y'. *)
Definition unprime (u : bdd) : bdd :=
  memo (fun v => u (mkV (vc v) (vx v) (vy v) (vx v) (vy v))).

(* all valuations of the arena, and semantic equality of BDDs (canonicity) *)
Definition all_V : list V :=
  flat_map (fun c => flat_map (fun x => flat_map (fun y =>
    flat_map (fun xp => map (fun yp => mkV c x y xp yp) (seq 0 ny)) (seq 0 nx))
    (seq 0 ny)) (seq 0 nx)) (seq 0 nc).
Definition beq (a b : bdd) : bool := forallb (fun v => eqb (a v) (b v)) all_V.

(* `while q != qold: qold = q; BODY`  ==  repeat BODY until q is unchanged.
   [C] are the loop-carried variables, [E] values defined by the body that are
   read after the loop.  Exhausted fuel returns the current iterate; theorems
   about loops carry "fuel is enough" (see Kleene.v). *)
Fixpoint do_while {C E : Type} (fuel : nat) (body : C -> C * E) (key : C -> bdd)
    (c : C) : C * E :=
  let r := body c in
  if beq (key (fst r)) (key c) then r
  else match fuel with
       | 0 => r
       | S k => do_while k body key (fst r)
       end.

(* state predicates: do not depend on primed variables *)
Definition is_state_pred (u : bdd) : bool :=
  forallb (fun v => eqb (u v) (u (mkV (vc v) (vx v) (vy v) 0 0))) all_V.

End Arena.

Arguments do_while nc nx ny {C E} fuel body key c.

(* Python's enumerate(l), counting from i *)
Fixpoint enumerate {A} (i : nat) (l : list A) : list (nat * A) :=
  match l with [] => [] | a :: r => (i, a) :: enumerate (Nat.succ i) r end.
