(* Proofs about solve_streett_game / _attractor_under_assumptions as GENERATED
   from omega/games/gr1.py (coq/gen/Gr1Gen.v): the returned winning region is
   the mu-calculus fixpoint streett_spec of L4/GR1Spec.v, for every arena,
   every action pair, all lists of persistence/recurrence predicates, all
   four modes; the three nested loops never exhaust fuel >= |valuations|. *)
From Coq Require Import List Bool Arith Lia.
Import ListNotations.
From Omega Require Import L4.Arena L4.ArenaFacts L4.Kleene L4.AlgOrder L4.GameSpec L4.Mu L4.GR1Spec.
From OmegaGen Require Import FixpointGen Gr1Gen.
From OmegaGP Require Import ReadsGr1.
From OmegaGP Require Import FixpointProofs.

Lemma fold_left_proj {A A' B} (pi : A -> A') (f : A -> B -> A) (f' : A' -> B -> A') :
  (forall a b, pi (f a b) = f' (pi a) b) ->
  forall l a, pi (fold_left f l a) = fold_left f' l (pi a).
Proof.
  intros H l. induction l as [|b l IH]; intros a; cbn [fold_left]; [reflexivity|].
  rewrite IH, H. reflexivity.
Qed.

Section Streett.
Variables nc nx ny : nat.
Variables E S : bdd.
Variables holds goals : list bdd.
Variables moore plus_one : bool.

Local Notation le := (le nc nx ny).
Local Notation eqv := (eqv nc nx ny).
Local Notation mono := (mono nc nx ny).
Local Notation NV := (NV nc nx ny).
Local Notation band := (Arena.band nc nx ny).
Local Notation bor := (Arena.bor nc nx ny).
Local Notation loop := (loop nc nx ny).
Local Notation is_lfp := (is_lfp nc nx ny).
Local Notation is_gfp := (is_gfp nc nx ny).
Local Notation op_eqv := (op_eqv nc nx ny).
Local Notation step := (FixpointGen.step nc nx ny moore plus_one).
Local Notation trap := (FixpointGen.trap nc nx ny moore plus_one).
Local Notation cpre := (GR1Spec.cpre nx ny moore plus_one E S).
Local Notation sX := (sX nc nx ny moore plus_one E S).
Local Notation sX_op := (sX_op nc nx ny moore plus_one E S).
Local Notation sY := (sY nc nx ny moore plus_one E S holds).
Local Notation sY_op := (sY_op nc nx ny moore plus_one E S holds).
Local Notation sZ_op := (sZ_op nc nx ny moore plus_one E S holds goals).
Local Notation aua := (Gr1Gen.attractor_under_assumptions nc nx ny E S holds moore plus_one).
Local Notation solve := (Gr1Gen.solve_streett_game nc nx ny E S holds goals moore plus_one).

Variable fuel : nat.
Hypothesis Hfuel : NV <= fuel.

Lemma step_cpre T v : step fuel E S T v = cpre T v.
Proof. apply step_spec. Qed.

(* level X: trap with `unless` is the nu X of the specification *)
Lemma trap_is_sX P u : eqv (trap fuel E S P (Some u)) (sX P u).
Proof.
  apply (is_gfp_unique nc nx ny (sX_op P u)); [|apply sX_is_gfp].
  destruct (trap_gfp nc nx ny moore plus_one fuel E S P (Some u) Hfuel) as [H1 H2].
  split.
  - intros v Hv. rewrite <- (H1 v Hv). unfold GR1Spec.sX_op, trap_spec_op.
    rewrite bor_spec, band_spec. reflexivity.
  - intros p Hp. apply H2. intros v Hv Hpv. specialize (Hp v Hv Hpv).
    unfold GR1Spec.sX_op in Hp. rewrite bor_spec, band_spec in Hp. exact Hp.
Qed.

Lemma sX_eqv_u P u u' : eqv u u' -> eqv (sX P u) (sX P u').
Proof.
  intros H. apply le_antisym; apply sX_mono_u; [apply eqv_le|apply eqv_le']; exact H.
Qed.

(* level Y: the loop of _attractor_under_assumptions *)
Definition aua_op (goal y : bdd) : bdd :=
  fold_left (fun acc safe => bor acc (trap fuel E S safe (Some (bor (step fuel E S y) goal))))
    holds y.

Lemma fst3 {A B C} (D : (A * B * C) * unit) :
  (let '((y, yj, xjk), tt) := D in (y, yj, xjk)) = fst D.
Proof. destruct D as [[[y yj] xjk] []]. reflexivity. Qed.

Lemma aua_y goal :
  fst (fst (aua fuel goal)) = loop fuel (aua_op goal) bfalse.
Proof.
  unfold Gr1Gen.attractor_under_assumptions. cbv zeta. rewrite fst3.
  rewrite <- do_while_loop.
  apply (do_while_proj nc nx ny (fun c : bdd * list bdd * list (list bdd) => fst (fst c))).
  - intros [[y yj] xjk]. reflexivity.
  - intros [[y yj] xjk]. cbn [fst snd].
    match goal with |- context [fold_left ?f holds ?a] =>
      set (F := f); set (a0 := a) end.
    assert (Hs : snd (fold_left F holds a0) = aua_op goal y).
    { unfold aua_op.
      rewrite (fold_left_proj snd F
        (fun y' safe => bor y' (trap fuel E S safe (Some (bor (step fuel E S y) goal))))).
      - reflexivity.
      - intros [xk y'] safe. reflexivity. }
    destruct (fold_left F holds a0) as [xk y'] eqn:EF. cbn [fst snd] in *.
    exact Hs.
Qed.

(* the body of the Y loop is  y |-> y \/ sY_op goal y  up to eqv *)
Definition Gc (goal y : bdd) : bdd :=
  big_or (map (fun P => trap fuel E S P (Some (bor (step fuel E S y) goal))) holds).

Lemma aua_op_spec goal y v : aua_op goal y v = y v || Gc goal y v.
Proof.
  unfold aua_op, Gc.
  apply (fold_bor_spec nc nx ny
    (fun P => trap fuel E S P (Some (bor (step fuel E S y) goal)))).
Qed.

Lemma big_or_eqv (T T' : bdd -> bdd) l :
  (forall s, eqv (T s) (T' s)) -> eqv (big_or (map T l)) (big_or (map T' l)).
Proof.
  intros H. apply le_antisym; apply big_or_le; intros s _;
    [apply eqv_le|apply eqv_le']; apply H.
Qed.
Lemma big_and_eqv (T T' : bdd -> bdd) l :
  (forall s, eqv (T s) (T' s)) -> eqv (big_and (map T l)) (big_and (map T' l)).
Proof.
  intros H. apply le_antisym; apply big_and_le; intros s _;
    [apply eqv_le|apply eqv_le']; apply H.
Qed.

Lemma Gc_sY_op goal : op_eqv (Gc goal) (sY_op goal).
Proof.
  intros q. unfold Gc, GR1Spec.sY_op. apply big_or_eqv. intros P.
  apply eqv_trans with (sX P (bor (step fuel E S q) goal)); [apply trap_is_sX|].
  apply sX_eqv_u. intros v _. rewrite !bor_spec, step_cpre. reflexivity.
Qed.

Lemma aua_op_eqv goal : op_eqv (aua_op goal) (fun y => bor y (sY_op goal y)).
Proof.
  intros q v Hv. rewrite aua_op_spec, bor_spec. f_equal. apply Gc_sY_op, Hv.
Qed.

Lemma acc_mono G : mono G -> mono (fun y => bor y (G y)).
Proof. intros M a b H. apply bor_le; [exact H|apply M, H]. Qed.

Theorem aua_is_sY goal : eqv (fst (fst (aua fuel goal))) (sY goal).
Proof.
  rewrite aua_y.
  apply (is_lfp_unique nc nx ny (sY_op goal)); [|apply sY_is_lfp].
  apply lfp_accumulate; [apply sY_op_mono|].
  apply (is_lfp_ext nc nx ny (aua_op goal)); [apply aua_op_eqv|].
  apply loop_is_lfp; [|exact Hfuel].
  apply (mono_ext nc nx ny _ _ (aua_op_eqv goal)). apply acc_mono, sY_op_mono.
Qed.

(* level Z: the loop of solve_streett_game *)
Definition zop (z : bdd) : bdd :=
  fold_left (fun acc goal => band acc (fst (fst (aua fuel (band goal (step fuel E S z))))))
    goals z.

Lemma do_while_fst {X} (body : bdd -> bdd * X) z :
  fst (do_while nc nx ny fuel body (fun q => q) z) = loop fuel (fun q => fst (body q)) z.
Proof.
  rewrite <- do_while_loop.
  apply (do_while_proj nc nx ny (fun c : bdd => c) body
           (fun q => (fst (body q), tt)) (fun q => q) (fun q => q));
    intros; reflexivity.
Qed.

Lemma fstz {A B} (D : bdd * (A * B)) :
  fst (fst (let '(z, (xijk, yij)) := D in (z, yij, xijk))) = fst D.
Proof. destruct D as [z [a b]]. reflexivity. Qed.

Lemma solve_z : fst (fst (solve fuel)) = loop fuel zop btrue.
Proof.
  unfold Gr1Gen.solve_streett_game. cbv zeta. rewrite fstz.
  rewrite do_while_fst. apply loop_ext. intros z. cbn [fst].
  match goal with |- context [fold_left ?f goals ?a] =>
    set (F := f); set (a0 := a) end.
  assert (Hs : fst (fst (fold_left F goals a0)) = zop z).
  { unfold zop.
    rewrite (fold_left_proj (fun c : bdd * list (list (list bdd)) * list (list bdd) => fst (fst c)) F
      (fun acc goal => band acc (fst (fst (aua fuel (band goal (step fuel E S z))))))).
    - reflexivity.
    - intros [[z' a] b] goal. unfold F.
      destruct (aua fuel (band goal (step fuel E S z))) as [[y yj] xjk]. reflexivity. }
  destruct (fold_left F goals a0) as [[z' a] b]. cbn [fst] in *. exact Hs.
Qed.

Definition Kc (z : bdd) : bdd :=
  big_and (map (fun R => fst (fst (aua fuel (band R (step fuel E S z))))) goals).

Lemma zop_spec z v : zop z v = z v && Kc z v.
Proof.
  unfold zop, Kc.
  apply (fold_band_spec nc nx ny
    (fun R => fst (fst (aua fuel (band R (step fuel E S z)))))).
Qed.

Lemma sY_eqv g g' : eqv g g' -> eqv (sY g) (sY g').
Proof.
  intros H. apply le_antisym; apply sY_mono; [apply eqv_le|apply eqv_le']; exact H.
Qed.

Lemma Kc_sZ_op : op_eqv Kc sZ_op.
Proof.
  intros q. unfold Kc, GR1Spec.sZ_op. apply big_and_eqv. intros R.
  apply eqv_trans with (sY (band R (step fuel E S q))); [apply aua_is_sY|].
  apply sY_eqv. intros v _. rewrite !band_spec, step_cpre. reflexivity.
Qed.

Lemma zop_eqv : op_eqv zop (fun z => band z (sZ_op z)).
Proof.
  intros q v Hv. rewrite zop_spec, band_spec. f_equal. apply Kc_sZ_op, Hv.
Qed.

Lemma dec_mono K : mono K -> mono (fun z => band z (K z)).
Proof. intros M a b H. apply band_le; [exact H|apply M, H]. Qed.

(* the winning region returned by the generated solver is the fixpoint *)
Theorem streett_fixpoint :
  eqv (fst (fst (solve fuel))) (streett_spec nc nx ny moore plus_one E S holds goals).
Proof.
  rewrite solve_z.
  apply (is_gfp_unique nc nx ny sZ_op); [|apply streett_spec_is_gfp].
  apply gfp_accumulate; [apply sZ_op_mono|].
  apply (is_gfp_ext nc nx ny zop); [apply zop_eqv|].
  apply loop_is_gfp; [|exact Hfuel].
  apply (mono_ext nc nx ny _ _ zop_eqv). apply dec_mono, sZ_op_mono.
Qed.

End Streett.
