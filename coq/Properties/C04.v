(* C04 — Rabin(1) winning region: exact fixpoint, and dual to the opponent's
   Streett(1) region.  Statements only.  Gr1Gen.* is generated from
   /repo/omega/games/gr1.py on every run.

   Proved for all arenas / actions / liveness lists / four modes:
   (1) the last iterate returned by solve_rabin_game is exactly
         mu Z. \/_k nu Y. /\_j mu X. (cpre X \/ R_j) /\ cpre Y /\ (cpre Z \/ P_k);
   (2) for every Streett(1) game, the region returned by solve_streett_game
       and the region returned by solve_rabin_game on the opponent's game
       (roles swapped = coordinates swapped by swapV, actions exchanged,
       liveness complemented, Moore <-> Mealy, strict <-> non-strict) are
       complementary: every valuation is in exactly one of them.
   The game-semantic reading of (1) is not mechanised (as for C01). *)
From Coq Require Import List Bool Arith Lia.
From Omega Require Import L4.Arena L4.Kleene L4.GameSpec L4.Mu L4.GR1Spec L4.Duality.
From OmegaGen Require Import FixpointGen Gr1Gen.
From OmegaGP Require Import FixpointProofs StreettProofs RabinProofs DualityProofs.

Section C04.
Variables nc nx ny : nat.
Variables E S : bdd.
Variables holds goals : list bdd.
Variables moore plus_one : bool.

Theorem C04_rabin_fixpoint_exact : forall fuel, NV nc nx ny <= fuel ->
  eqv nc nx ny
    (last (fst (fst (Gr1Gen.solve_rabin_game nc nx ny E S holds goals moore plus_one fuel))) bfalse)
    (rabin_spec nc nx ny moore plus_one E S holds goals).
Proof. exact (rabin_fixpoint nc nx ny E S holds goals moore plus_one). Qed.

Theorem C04_spec_outer_is_least_fixpoint :
  is_lfp nc nx ny (rZ_op nc nx ny moore plus_one E S holds goals)
         (rabin_spec nc nx ny moore plus_one E S holds goals).
Proof. exact (rabin_spec_is_lfp nc nx ny moore plus_one E S holds goals). Qed.

(* spec-level duality *)
Theorem C04_duality_spec : forall v, inr nc nx ny v ->
  streett_spec nc nx ny moore plus_one E S holds goals v =
  negb (rabin_spec nc ny nx (negb moore) (negb plus_one) (dual S) (dual E)
          (map Phi goals) (map Phi holds) (swapV v)).
Proof. exact (streett_rabin_partition nc nx ny moore plus_one E S holds goals). Qed.

(* the same for what the two generated solvers return *)
Theorem C04_duality_solvers : forall fuel,
  NV nc nx ny <= fuel -> NV nc ny nx <= fuel -> forall v, inr nc nx ny v ->
  streett_region nc nx ny E S holds goals moore plus_one fuel v =
  negb (opponent_rabin_region nc nx ny E S holds goals moore plus_one fuel (swapV v)).
Proof. exact (solvers_partition nc nx ny E S holds goals moore plus_one). Qed.

End C04.

Local Open Scope bool_scope.
Import ListNotations.
(* non-vacuity of the duality statement on a concrete 2x2 arena *)
Example C04_duality_example :
  let E : bdd := fun v => Nat.eqb (vxp v) (vx v) || Nat.eqb (vy v) 1 in
  let S : bdd := fun v => negb (Nat.eqb (vyp v) (vx v)) || Nat.eqb (vx v) 0 in
  let P : bdd := fun v => Nat.eqb (vy v) 0 in
  let R : bdd := fun v => Nat.eqb (vx v) (vy v) in
  map (fun v => streett_region 1 2 2 E S [P] [R] false true 20 v)
      [mkV 0 0 0 0 0; mkV 0 0 1 0 0; mkV 0 1 0 0 0; mkV 0 1 1 0 0] =
  map (fun v => negb (opponent_rabin_region 1 2 2 E S [P] [R] false true 20 (swapV v)))
      [mkV 0 0 0 0 0; mkV 0 0 1 0 0; mkV 0 1 0 0 0; mkV 0 1 1 0 0]
  /\ NV 1 2 2 <= 20.
Proof. vm_compute. split; [reflexivity|repeat constructor]. Qed.

Print Assumptions C04_rabin_fixpoint_exact.
Print Assumptions C04_spec_outer_is_least_fixpoint.
Print Assumptions C04_duality_spec.
Print Assumptions C04_duality_solvers.
