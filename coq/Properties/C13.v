(* C13 — generated code computes outputs that satisfy the relation it came
   from.  Statements only; proofs in theories/L7Codegen/{Bits,Dag,Step}Proofs.v.

   Models (after the F4/F7 repairs of omega/symbolic/codegen.py):
   Bits.v  int_to_bits, twos_complement_to_int, _append_sign_bit, dom_to_width;
   Dag.v   dumps_bdd_as_code on a DAG seen through int(u)/u.var/u.negated/
           bdd.succ, the emitted text as a straight-line program AST with a
           strict evaluator (fails on use-before-assignment and on a second
           assignment of a latch);
   Step.v  dumps_bdds_as_code + the generated step(state);
   gen/C13_tables.v  the `languages` table extracted from the source text. *)
From Coq Require Import List Bool Arith ZArith String Lia.
Import ListNotations.
From Omega Require Import L7Codegen.Pred L7Codegen.PredFacts L7Codegen.Synth
  L7Codegen.SynthProofs L7Codegen.Bits L7Codegen.BitsProofs L7Codegen.Dag
  L7Codegen.DagProofs L7Codegen.Step L7Codegen.StepProofs
  L7Codegen.Render L7Codegen.RenderProofs.
From OmegaGen Require Import C13_tables.

(* (1) int_bits_roundtrip: for every type hint (Boolean, unsigned, signed,
   all-negative; any lo, hi) and every value representable in the bits of the
   variable (so also values outside lo..hi, negative values and Booleans),
   decoding (bitfields_to_ints) the bits the generated code reads from
   assign_bitvectors gives the value back. *)
Theorem C13_int_bits_roundtrip : forall t v,
  representable t v ->
  decode t (firstn (nbits t) (encode t v)) = v.
Proof. exact int_bits_roundtrip. Qed.

(* (2) straightline_correct: for every DAG whose levels strictly increase
   along edges, every list of named roots and every input a, the emitted
   program runs without reading an unassigned latch or assigning one twice,
   and leaves in out_bits exactly the roots' names, each with the value of
   the BDD at a. *)
Theorem C13_straightline_correct : forall d nlev a roots,
  wf_dag d nlev = true ->
  (forall r, In r roots -> root_ok_p d nlev (snd r)) ->
  run a (dumps_bdd_as_code nlev d roots)
  = Some (map (fun r => (fst r, ref_val (S nlev) d a (snd r))) roots).
Proof. intros d nlev a roots WF. exact (straightline_correct d nlev WF a roots). Qed.

Theorem C13_latches_assigned_once : forall d nlev roots,
  wf_dag d nlev = true ->
  (forall r, In r roots -> root_ok_p d nlev (snd r)) ->
  NoDup (assigned (dumps_bdd_as_code nlev d roots)).
Proof. intros d nlev roots WF. exact (latches_assigned_once d nlev WF [] roots). Qed.

(* (3) step_correct: for every number of bits, relation r over the bits,
   layout of typed variables, requested outputs, iteration order and
   `restrict` meeting the contract of C14, and every state of representable
   values of non-output variables for which some assignment of the output
   bits satisfies r: the completed bit assignment a' satisfies r, decodes to
   the given state on the state's variables, and step returns exactly the
   requested output variables with the values a' decodes to. *)
Theorem C13_step_correct :
  forall n restrict, restrict_agrees n restrict -> restrict_support n restrict ->
  forall ly out_vars r order,
  layout_ok n ly -> (forall x, In x out_vars -> x < List.length ly) ->
  forall state,
  order_ok n r (list_bits ly out_vars) order ->
  state_ok ly out_vars state ->
  let a := assign_bitvectors n ly state in
  (exists b, agree_out (list_bits ly out_vars) a b /\ r b = true) ->
  let a' := apply_functions (functions n restrict ly out_vars r order) a in
  r a' = true /\
  (forall x v, In (x, v) state ->
     decode (var_type ly x) (read_bits a' (var_bits ly x)) = v) /\
  step n restrict ly out_vars r order state
  = map (fun x => (x, decode (var_type ly x) (read_bits a' (var_bits ly x)))) out_vars.
Proof. exact step_correct. Qed.

(* the same when compute_bdds executes the program emitted for a well-formed
   DAG whose references denote the extracted functions (this link between the
   manager's DAG and the function is the trusted meaning of dd, re-checked by
   the correspondence on every sampled DAG) *)
Theorem C13_step_through_program :
  forall n restrict ly out_vars r order d nlev keys state,
  wf_dag d nlev = true ->
  (forall k, In k keys -> root_ok_p d nlev k) ->
  (forall a, Forall2 (fun k e => ref_val (S nlev) d a k = fst (snd e) a) keys
               (functions n restrict ly out_vars r order)) ->
  step_prog n ly out_vars nlev d
    (combine (map fst (functions n restrict ly out_vars r order)) keys) state
  = Some (step n restrict ly out_vars r order state).
Proof. exact step_prog_correct. Qed.

(* (4) tie G, by computation over the extracted table (the bound is the
   table): both targets are present, define the same keys, and define every
   key the emitter subscripts *)
Definition has_key (k : string) (t : list (string * string)) : bool :=
  existsb (fun e => String.eqb k (fst e)) t.
Definition same_keys (s t : list (string * string)) : bool :=
  forallb (fun e => has_key (fst e) t) s && forallb (fun e => has_key (fst e) s) t.
Theorem C13_languages_same_keys_bounded :
  existsb (fun l => String.eqb "python" (fst l)) languages = true /\
  existsb (fun l => String.eqb "c" (fst l)) languages = true /\
  forallb (fun l1 => forallb (fun l2 => same_keys (snd l1) (snd l2)) languages)
          languages = true /\
  forallb (fun l => forallb (fun k => has_key k (snd l)) used_keys) languages = true.
Proof. vm_compute. repeat split; reflexivity. Qed.

(* (5) the rendered TEXT.  Render.v lays a program out as the token list of
   the text dumps_bdd_as_code writes (COMMENT level lines; `latch_k = (`,
   `(bit AND hi) OR`, `((NOT bit) AND lo))SEP`; `out_bits["name"] = ref SEP`;
   lines joined by line breaks) for ANY syntax table, and run_text is a
   strict evaluator of that token language parametric in the same table
   (or/and/not with the usual precedences, parentheses, TRUE/FALSE,
   identifiers that must be inputs or latches assigned earlier, no second
   assignment, mandatory separator, comment lines).
   For EVERY table whose tokens are pairwise distinct and do not look like
   latches/outputs (syntax_ok), every list of pairwise distinct input names
   that are no tokens (names_ok) and every program the strict AST evaluator
   accepts: evaluating the rendered text = evaluating the AST. *)
Theorem C13_rendered_text_evaluates_program :
  forall sy names outname, syntax_ok sy = true -> names_ok sy names = true ->
  forall a p outs,
  prog_bits_ok (List.length names) p = true ->
  run a p = Some outs ->
  run_text sy names a (render sy names outname p)
  = Some (map (fun o => (out_word (outname (fst o)), snd o)) outs).
Proof. exact rendered_text_evaluates_program. Qed.

(* hence, with (2): for every well-formed DAG whose nodes test input bits,
   the rendered text evaluates each root to the BDD's value *)
Theorem C13_rendered_text_evaluates_bdd :
  forall sy names outname, syntax_ok sy = true -> names_ok sy names = true ->
  forall d nlev a roots,
  wf_dag d nlev = true -> dag_bits_ok (List.length names) d = true ->
  (forall r, In r roots -> root_ok_p d nlev (snd r)) ->
  run_text sy names a (render sy names outname (dumps_bdd_as_code nlev d roots))
  = Some (map (fun r => (out_word (outname (fst r)), ref_val (S nlev) d a (snd r))) roots).
Proof. exact rendered_text_evaluates_bdd. Qed.

(* the side condition holds for every extracted table (python and c), and
   the names b0.. used by the correspondence are admissible for both; by
   computation over the generated tables *)
Theorem C13_rendered_text_tables_ok_bounded :
  forallb (fun l => match syntax_of (snd l) with
                    | Some sy => syntax_ok sy && forallb (fun n => names_ok sy (bnames n)) (seq 0 13)
                    | None => false
                    end) languages = true /\
  (exists sy, lang_syntax "python" languages = Some sy) /\
  (exists sy, lang_syntax "c" languages = Some sy).
Proof. split; [vm_compute; reflexivity|]. split; eexists; vm_compute; reflexivity. Qed.

(* so: for each extracted target language *)
Theorem C13_rendered_text_evaluates_extracted :
  forall lang sy, lang_syntax lang languages = Some sy ->
  forall names outname, names_ok sy names = true ->
  forall d nlev a roots,
  wf_dag d nlev = true -> dag_bits_ok (List.length names) d = true ->
  (forall r, In r roots -> root_ok_p d nlev (snd r)) ->
  run_text sy names a (render sy names outname (dumps_bdd_as_code nlev d roots))
  = Some (map (fun r => (out_word (outname (fst r)), ref_val (S nlev) d a (snd r))) roots).
Proof.
  intros lang sy L names outname NO. apply rendered_text_evaluates_bdd; [|exact NO].
  clear NO names outname.
  assert (A : forall l, In l languages -> forall sy', syntax_of (snd l) = Some sy' ->
                syntax_ok sy' = true).
  { intros l I sy' E.
    pose proof (proj1 C13_rendered_text_tables_ok_bounded) as H.
    rewrite forallb_forall in H. specialize (H l I). rewrite E in H.
    apply andb_true_iff in H. tauto. }
  revert L. generalize languages at 1 as ls, A. intros ls.
  induction ls as [|[k t] r IH]; intros A' L; [discriminate|].
  cbn [lang_syntax] in L. destruct (String.eqb k lang).
  - apply (A' (k, t)); [left; reflexivity | exact L].
  - apply IH; [|exact L]. intros l I. apply A'. right. exact I.
Qed.

(* --- the hypotheses are satisfiable ---------------------------------------- *)
(* a DAG with a complemented edge: root -5 = not (b0 and b1) *)
Definition ex_dag : dag :=
  [ (1%Z, mk_info true false 0 0 0 0); ((-1)%Z, mk_info true true 0 0 0 0);
    (4%Z, mk_info false false 1 1 (-1) 1); (5%Z, mk_info false false 0 0 (-1) 4);
    ((-5)%Z, mk_info false true 0 0 (-1) 4) ].
Example C13_straightline_instance :
  wf_dag ex_dag 2 = true /\
  (forall r, In r [(0, (-5)%Z); (1, 5%Z)] -> root_ok_p ex_dag 2 (snd r)) /\
  run [true; true] (dumps_bdd_as_code 2 ex_dag [(0, (-5)%Z); (1, 5%Z)])
  = Some [(0, false); (1, true)].
Proof.
  split; [vm_compute; reflexivity|]. split; [|vm_compute; reflexivity].
  intros r [<-|[<-|[]]]; eexists; (split; [vm_compute; reflexivity|right; cbn; lia]).
Qed.

(* the same DAG as text, in both extracted syntaxes *)
Definition ex_c_text : list string :=
  ["//"; "level"; ":"; "1"; NL;
   "latch_4"; "="; "("; NL; "("; "b1"; "&&"; "true"; ")"; "||"; NL;
   "("; "("; "!"; "b1"; ")"; "&&"; "("; "!"; "true"; ")"; ")"; ")"; ";"; NL;
   "//"; "level"; ":"; "0"; NL;
   "latch_n5"; "="; "("; NL; "("; "b0"; "&&"; "latch_4"; ")"; "||"; NL;
   "("; "("; "!"; "b0"; ")"; "&&"; "("; "!"; "true"; ")"; ")"; ")"; ";"; NL;
   "latch_5"; "="; "("; NL; "("; "b0"; "&&"; "latch_4"; ")"; "||"; NL;
   "("; "("; "!"; "b0"; ")"; "&&"; "("; "!"; "true"; ")"; ")"; ")"; ";"; NL;
   "out_bits[""out0""]"; "="; "("; "!"; "latch_n5"; ")"; ";"; NL;
   "out_bits[""out1""]"; "="; "latch_5"; ";"]%string.
Example C13_rendered_text_instance :
  exists syc syp,
    lang_syntax "c" languages = Some syc /\ lang_syntax "python" languages = Some syp /\
    names_ok syc (bnames 2) = true /\ names_ok syp (bnames 2) = true /\
    dag_bits_ok 2 ex_dag = true /\
    render syc (bnames 2) oname (dumps_bdd_as_code 2 ex_dag [(0, (-5)%Z); (1, 5%Z)])
    = ex_c_text /\
    run_text syc (bnames 2) [true; true] ex_c_text
    = Some [("out_bits[""out0""]", false); ("out_bits[""out1""]", true)]%string /\
    run_text syp (bnames 2) [true; true]
      (render syp (bnames 2) oname (dumps_bdd_as_code 2 ex_dag [(0, (-5)%Z); (1, 5%Z)]))
    = Some [("out_bits[""out0""]", false); ("out_bits[""out1""]", true)]%string /\
    (* the strict evaluator rejects a Python keyword in C text *)
    run_text syc (bnames 2) [true; true]
      ["out_bits[""out0""]"; "="; "("; "not"; "b0"; ")"; ";"]%string = None.
Proof.
  eexists. eexists. split; [vm_compute; reflexivity|]. split; [vm_compute; reflexivity|].
  repeat split; vm_compute; reflexivity.
Qed.

(* x in -1..1 (bits 0,1), requested output x' (bits 2,3), relation x' = x,
   state x = -2 (representable in the two bits, outside the hint) *)
Definition ex_ly : layout := [(TInt (-1) 1, [0; 1]); (TInt (-1) 1, [2; 3])].
Definition ex_rel : pred :=
  fun a => Bool.eqb (get a 2) (get a 0) && Bool.eqb (get a 3) (get a 1).
Example C13_step_instance :
  layout_ok 4 ex_ly /\ state_ok ex_ly [1] [(0, VZ (-2))] /\
  order_ok 4 ex_rel (list_bits ex_ly [1]) [(3, [0; 1]); (2, [0; 1])] /\
  (exists b, agree_out (list_bits ex_ly [1])
               (assign_bitvectors 4 ex_ly [(0, VZ (-2))]) b /\ ex_rel b = true) /\
  step 4 no_restrict ex_ly [1] ex_rel [(3, [0; 1]); (2, [0; 1])] [(0, VZ (-2))]
  = [(1, VZ (-2))].
Proof.
  split; [|split; [|split; [|split]]].
  - split.
    + intros x Hx.
      assert (N : forall p q : nat, p <> q -> NoDup [p; q]).
      { intros p q Npq. constructor; [intros [E|[]]; congruence|].
        constructor; [intros []|constructor]. }
      destruct x as [|[|x]]; [| |cbn in Hx; lia];
        cbn [var_bits var_type ex_ly nth fst snd nbits];
        (split; [apply N; lia|]);
        (split; [intros p [<-|[<-|[]]]; lia|vm_compute; reflexivity]).
    + intros x x' p Hx Hx' Hp Hp'.
      destruct x as [|[|x]]; [| |cbn in Hx; lia];
        (destruct x' as [|[|x']]; [| |cbn in Hx'; lia]);
        cbn [var_bits ex_ly nth snd In] in Hp, Hp'; try reflexivity; exfalso; lia.
  - split; [repeat constructor; intros []|].
    intros x v [E|[]]. injection E as <- <-.
    split; [cbn; lia|]. split; [cbn; lia|]. intros [E|[]]. lia.
  - split; [repeat constructor; cbn; intuition lia|].
    intro y. cbn [map fst In list_bits flat_map var_bits ex_ly nth snd app]. split.
    + intros [<-|[<-|[]]]; (split; [cbn; tauto|vm_compute; reflexivity]).
    + intros [[<-|[<-|[]]] _]; tauto.
  - exists [false; true; false; true]. split; [|reflexivity].
    split; [reflexivity|]. intros i Hi.
    destruct i as [|[|[|[|i]]]]; try reflexivity; exfalso; apply Hi; cbn; tauto.
  - vm_compute. reflexivity.
Qed.

(* regression examples for the defects repaired by fixes/F4.patch: with the
   old int_to_bits, x = -3 under the hint -3..3 decoded to +1 *)
Example C13_refuted_neg_old_code :
  representable (TInt (-3) 3) (VZ (-3)) /\
  twos_complement_to_int (append_sign_bit (-3) 3
     (firstn 3 (int_to_bits_old (-3) (width_of (-3) 3)))) = 1%Z.
Proof. exact int_to_bits_old_refuted. Qed.

Print Assumptions C13_int_bits_roundtrip.
Print Assumptions C13_straightline_correct.
Print Assumptions C13_latches_assigned_once.
Print Assumptions C13_step_correct.
Print Assumptions C13_step_through_program.
Print Assumptions C13_languages_same_keys_bounded.
Print Assumptions C13_rendered_text_evaluates_program.
Print Assumptions C13_rendered_text_evaluates_bdd.
Print Assumptions C13_rendered_text_tables_ok_bounded.
Print Assumptions C13_rendered_text_evaluates_extracted.
