"""Search oracle for C16 (never evidence of correctness; it only produces
replays): a direct precedence-climbing reader driven by the DOCUMENTED
table of doc/doc.md (not by the code's tuple and not by the Coq model),
for sentences of the documented operator core: identifiers, numbers,
TRUE/FALSE, parentheses and the infix / prefix / postfix operators of the
documented BNF that appear in the documented precedence list.
"""

# spellings the documentation lists side by side (BNF: "TLA+ syntax" /
# "Promela syntax") -> the name the tree carries
CANON = {'&&': '/\\', '&': '/\\', '||': '\\/', '|': '\\/', '!': '~',
         '->': '=>', '<->': '<=>'}
SYN = {'#': '!=', '/=': '!=', '=<': '<='}


class DocTable:
    def __init__(self, doc):
        self.level, self.assoc = {}, {}
        for i, (a, toks) in enumerate(doc['levels']):
            for t in toks:
                self.level[t] = i + 1
                self.assoc[t] = a
        self.binary = [t for t in doc['binary'] if t in self.level]
        self.prefix = [t for t in doc['prefix'] if t in self.level]
        self.postfix = [t for t in doc['postfix'] if t in self.level]


def is_atom(tok):
    return (tok[0].isalnum() or tok[0] == '_') and tok not in (
        'X', 'U', 'W', 'V', 'R', 'S', 'T')


def doc_parse(dt, toks):
    """Tree (nested tuples ('B', op, l, r) / ('U', op, x) / ('A', text)) of
    a token list according to the documented table; None if the sentence
    is not of the core."""
    pos = [0]

    def peek():
        return toks[pos[0]] if pos[0] < len(toks) else None

    def bind(tok):          # minimum level a right operand may absorb
        lv = dt.level[tok]
        return (lv, False) if dt.assoc[tok] == 'right' else (lv, True)

    def absorbs(minb, lv):
        m, strict = minb
        return lv > m if strict else lv >= m

    def expr(minb):
        t = peek()
        if t is None:
            return None
        pos[0] += 1
        if t == '(':
            left = expr((0, False))
            if left is None or peek() != ')':
                return None
            pos[0] += 1
        elif t in dt.prefix:
            x = expr(bind(t))
            if x is None:
                return None
            left = ('U', CANON.get(t, t), x)
        elif is_atom(t) and t not in dt.binary and t not in dt.prefix:
            left = ('A', t)
        else:
            return None
        while True:
            t = peek()
            if t in dt.binary and absorbs(minb, dt.level[t]):
                pos[0] += 1
                r = expr(bind(t))
                if r is None:
                    return None
                left = ('B', CANON.get(t, t), left, r)
            elif t in dt.postfix and absorbs(minb, dt.level[t]):
                pos[0] += 1
                left = ('U', 'X' if t == "'" else t, left)
            else:
                return left

    e = expr((0, False))
    if e is None or pos[0] != len(toks):
        return None
    return e


def shape(u):
    """Real tree (tuples of syntax_gen.tup) -> the oracle's format, or None
    when it contains nodes outside the core."""
    k = u[0]
    if k == 'Term':
        return ('A', u[2]) if u[1] in ('var', 'num', 'bool') else None
    if k == 'Un':
        x = shape(u[2])
        return None if x is None else ('U', u[1], x)
    if k == 'Bin':
        a, b = shape(u[3]), shape(u[4])
        if a is None or b is None:
            return None
        return ('B', SYN.get(u[2], u[2]), a, b)
    return None


def canon_shape(e):
    if e[0] == 'A':
        return e
    if e[0] == 'U':
        return ('U', e[1], canon_shape(e[2]))
    return ('B', SYN.get(e[1], e[1]), canon_shape(e[2]), canon_shape(e[3]))


def gen_core(rng, dt, budget):
    """Random sentence of the documented operator core (token list)."""
    if budget <= 1:
        return [rng.choice(['a', 'b', 'c', 'x', 'y', '1', '2', 'TRUE',
                            'FALSE'])]
    r = rng.random()
    if r < 0.55 and dt.binary:
        k = rng.randint(1, budget - 1)
        return (gen_core(rng, dt, k) + [rng.choice(dt.binary)]
                + gen_core(rng, dt, budget - k))
    if r < 0.72 and dt.prefix:
        return [rng.choice(dt.prefix)] + gen_core(rng, dt, budget - 1)
    if r < 0.8 and dt.postfix:
        return gen_core(rng, dt, budget - 1) + [rng.choice(dt.postfix)]
    if r < 0.92 and budget >= 3:
        return ['('] + gen_core(rng, dt, budget - 2) + [')']
    return gen_core(rng, dt, 1)


def systematic_core(dt):
    out = [['a', o, 'b'] for o in dt.binary]
    out += [[p, 'a'] for p in dt.prefix]
    for o1 in dt.binary:
        for o2 in dt.binary:
            out.append(['a', o1, 'b', o2, 'c'])
    for p in dt.prefix:
        for o in dt.binary:
            out.append([p, 'a', o, 'b'])
            out.append(['a', o, p, 'b'])
        for q in dt.postfix:
            out.append([p, 'a', q])
    for q in dt.postfix:
        out.append(['a', q])
        for o in dt.binary:
            out.append(['a', o, 'b', q])
    return out
