(* C12 — the enumerated state machine is an input-complete sub-machine of the
   symbolic one.  Statements only; model and proofs in theories/L4Enum
   (hand-written model of games/enumeration._action_to_steps and
   _init_search; tie H: the verified checker check_graph is evaluated inside
   Coq on the graphs the REAL enumeration returns).

   Tie T (second half of this file): action_to_steps, _action_to_steps,
   _select_candidate_nodes, _primed_vars_per_quantifier, _init_search, the four
   initial-value searches, _find_node, _add_new_node and _node_tuple of the
   CURRENT omega/games/enumeration.py are translated into gen/GamesEnumGen.v
   on every run (tools/py2coq_games_enum.py) and proved EQUAL to the
   code-level model L4Enum/EnumCode.v (C12_model_is_translated_code), which
   L4Enum/EnumCodeProofs.v relates to the abstract worklist model by a
   simulation; the C12_translated_* theorems are about the generated
   functions.  Only enumeration._add_to_visited (formula built as a string and
   parsed) is taken by what it denotes.

   Domain (as in DESIGN §6 C12): the environment's action does not read the
   component's next values, so it is a predicate E x y x'.  dd's `pick` is a
   parameter of which only "returns a member of the given set" is assumed.
   The model returns None where the code asserts (the component has no
   successor for an allowed next environment value).

   Termination: C12_fuel_never_exhausted.
   That every path of the graph is a behaviour of the implementation, and so
   inherits whatever the implementation guarantees of all its behaviours
   (the liveness of C02/C05): C12_paths_are_behaviours, C12_paths_inherit. *)
From Coq Require Import List Bool Arith Lia.
Import ListNotations.
From Omega Require Import L4Enum.EnumModel L4Enum.EnumProofs.

Section C12.
Variables nx ny : nat.
Variable E : nat -> nat -> nat -> bool.
Variable S : nat -> nat -> nat -> nat -> bool.
Variable pick : (nat -> bool) -> option nat.
Hypothesis pick_sound : forall p y, pick p = Some y -> y < ny /\ p y = true.

(* the worklist: from any distinct in-range initial nodes, any pick, any
   number of steps *)
Theorem C12_enumeration_sound : forall fuel l q g,
  NoDup l -> (forall s, In s l -> in_range nx ny s) ->
  NoDup q -> (forall u, In u q <-> u < length l) ->
  run nx ny E S pick fuel (mkG l q []) = Some g ->
  check_graph nx ny E S g = true /\ (exists extra, nodes g = l ++ extra).
Proof. exact (enum_sound nx ny E S pick pick_sound). Qed.

(* termination: with fuel >= number of valuations, fuel is never what stops
   the enumeration (more fuel gives the same result); a None result is the
   model of the code's own assertion "the component has no successor" *)
Theorem C12_fuel_never_exhausted : forall l q fuel k,
  NoDup l -> (forall s, In s l -> in_range nx ny s) ->
  NoDup q -> (forall u, In u q <-> u < length l) ->
  nx * ny <= fuel ->
  run nx ny E S pick (fuel + k) (mkG l q []) = run nx ny E S pick fuel (mkG l q []).
Proof. exact (run_enough_fuel nx ny E S pick pick_sound). Qed.

(* what the checker means *)
Theorem C12_checker_nodes_distinct : forall g,
  check_graph nx ny E S g = true -> NoDup (nodes g).
Proof.
  intros g H. unfold check_graph in H. repeat rewrite andb_true_iff in H.
  apply nodup_b_iff. tauto.
Qed.
Print Assumptions C12_checker_nodes_distinct.

Theorem C12_checker_edges_allowed : forall g e,
  check_graph nx ny E S g = true -> In e (edges g) ->
  exists s t, nth_error (nodes g) (fst e) = Some s /\ nth_error (nodes g) (snd e) = Some t /\
    E (fst s) (snd s) (fst t) = true /\ S (fst s) (snd s) (fst t) (snd t) = true.
Proof.
  intros g e H He. unfold check_graph in H. repeat rewrite andb_true_iff in H.
  destruct H as [[[_ _] Hed] _]. rewrite forallb_forall in Hed. specialize (Hed e He).
  unfold edge_ok in Hed.
  destruct (nth_error (nodes g) (fst e)) as [s|]; [|discriminate].
  destruct (nth_error (nodes g) (snd e)) as [t|]; [|discriminate].
  apply andb_true_iff in Hed. exists s, t. tauto.
Qed.
Print Assumptions C12_checker_edges_allowed.

Theorem C12_checker_input_complete : forall g u s x',
  check_graph nx ny E S g = true -> nth_error (nodes g) u = Some s -> x' < nx ->
  out_count (nodes g) (edges g) u x' = if E (fst s) (snd s) x' then 1 else 0.
Proof.
  intros g u s x' H Hu Hx. unfold check_graph in H. repeat rewrite andb_true_iff in H.
  destruct H as [_ Hc]. rewrite all_complete_iff in Hc. specialize (Hc u s Hu).
  cbn [Nat.add] in Hc. unfold node_complete in Hc. rewrite forallb_forall in Hc.
  apply Nat.eqb_eq, Hc, in_seq. lia.
Qed.
(* "Consequently every path of the graph is a behaviour of the implementation
   and satisfies the liveness condition the implementation guarantees": the
   states along any infinite path of a checked graph form a sequence of steps
   allowed by both actions, so every property of all such sequences (the
   liveness of C02/C05, C02_liveness for Streett implementations) holds of
   it. *)
Theorem C12_paths_are_behaviours : forall g (path : nat -> nat),
  check_graph nx ny E S g = true ->
  (forall i, In (path i, path (Datatypes.S i)) (edges g)) ->
  let sigma := fun i => nth (path i) (nodes g) (0, 0) in
  (forall i, nth_error (nodes g) (path i) = Some (sigma i)) /\
  (forall i, E (fst (sigma i)) (snd (sigma i)) (fst (sigma (Datatypes.S i))) = true /\
             S (fst (sigma i)) (snd (sigma i)) (fst (sigma (Datatypes.S i)))
               (snd (sigma (Datatypes.S i))) = true).
Proof. exact (paths_are_behaviours nx ny E S). Qed.

Theorem C12_paths_inherit : forall (Guaranteed : (nat -> nat * nat) -> Prop) g path,
  (forall sigma : nat -> nat * nat,
     (forall i, E (fst (sigma i)) (snd (sigma i)) (fst (sigma (Datatypes.S i))) = true /\
                S (fst (sigma i)) (snd (sigma i)) (fst (sigma (Datatypes.S i)))
                  (snd (sigma (Datatypes.S i))) = true) -> Guaranteed sigma) ->
  check_graph nx ny E S g = true ->
  (forall i, In (path i, path (Datatypes.S i)) (edges g)) ->
  Guaranteed (fun i => nth (path i) (nodes g) (0, 0)).
Proof.
  intros G g path HG Hc Hp. apply HG.
  exact (proj2 (paths_are_behaviours nx ny E S g path Hc Hp)).
Qed.
End C12.

(* initial nodes per qinit form *)
Section C12init.
Variables nx ny : nat.
Variable EI : nat -> bool.
Variable SI : nat -> nat -> bool.
Variable pick pickx : (nat -> bool) -> option nat.
Hypothesis pick_sound : forall p y, pick p = Some y -> y < ny /\ p y = true.
Hypothesis pickx_sound : forall p x, pickx p = Some x -> x < nx /\ p x = true.

Theorem C12_init_forall_forall : forall l,
  init_AA nx ny EI SI = Some l ->
  NoDup l /\ forall s, In s l <->
    (fst s < nx /\ snd s < ny) /\ EI (fst s) = true /\ SI (fst s) (snd s) = true.
Proof. exact (init_AA_spec nx ny EI SI). Qed.
Print Assumptions C12_init_forall_forall.

Theorem C12_init_exists_exists : forall l,
  init_EE ny SI pick pickx = Some l ->
  exists x y, l = [(x, y)] /\ x < nx /\ y < ny /\ SI x y = true.
Proof. exact (init_EE_spec nx ny EI SI pick pickx pick_sound pickx_sound). Qed.
Print Assumptions C12_init_exists_exists.

Theorem C12_init_forall_exists : forall l,
  init_AE nx EI SI pick = Some l ->
  NoDup l /\ map fst l = filter EI (seq 0 nx) /\
  forall s, In s l -> snd s < ny /\ EI (fst s) = true /\ SI (fst s) (snd s) = true.
Proof. exact (init_AE_spec nx ny EI SI pick pick_sound). Qed.

Theorem C12_init_exists_forall : forall l,
  init_EA nx EI SI pick = Some l ->
  exists y, y < ny /\ (forall x, x < nx -> SI x y = true) /\
            l = map (fun x => (x, y)) (filter EI (seq 0 nx)) /\ NoDup l.
Proof. exact (init_EA_spec nx ny EI SI pick pick_sound). Qed.
End C12init.

(* non-vacuity: a concrete run (least-element pick) produces a graph and the
   checker accepts it; a graph with a missing edge is rejected *)
Definition pick_least (n : nat) (p : nat -> bool) : option nat := find p (seq 0 n).
Example C12_example :
  let E := fun x y x' => negb (Nat.eqb x x') || Nat.eqb y 0 in
  let S := fun x y x' y' => Nat.eqb y' ((y + x') mod 3) || Nat.eqb y' 0 in
  match run 2 3 E S (pick_least 3) 20 (mkG [(0, 1)] [0] []) with
  | Some g => check_graph 2 3 E S g && (2 <=? length (nodes g))
              && negb (check_graph 2 3 E S (mkG (nodes g) [] (tl (edges g))))
  | None => false
  end = true.
Proof. vm_compute. reflexivity. Qed.

From Coq Require Import String.
From Omega Require Import L4Enum.EnumOrder L4Enum.EnumOrderProofs L4Enum.EnumArena
  L4Enum.EnumArenaProofs L4Enum.EnumContracts L4Enum.EnumCode L4Enum.EnumCodeProofs.
From OmegaGen Require GamesEnumGen.
From OmegaGP Require Import GamesEnumBridge.

(* ---- tie T: the translated code --------------------------------------------- *)
(* every translated function of omega/games/enumeration.py equals the function
   of the code-level model, for all arguments *)
Theorem C12_model_is_translated_code :
  forall (nx ny : nat) (pick : bdd -> list var -> option asg)
         (pick_iter : bdd -> list var -> list asg),
  (forall d keys, GamesEnumGen.node_tuple d keys = c_node_tuple d keys) /\
  (forall d um keys, GamesEnumGen.find_node d um keys = c_find_node d um keys) /\
  (forall d g q um keys,
     GamesEnumGen.add_new_node d g q um keys = c_add_new_node d g q um keys) /\
  (forall u v a b,
     GamesEnumGen.select_candidate_nodes nx ny u v a b =
     c_select_candidate_nodes nx ny u v a b) /\
  (forall vl,
     GamesEnumGen.primed_vars_per_quantifier vl = c_primed_vars_per_quantifier vl) /\
  (forall g a um keys,
     GamesEnumGen.forall_init nx ny pick_iter g a um keys =
     c_forall_init nx ny pick_iter g a um keys) /\
  (forall g a um keys,
     GamesEnumGen.exist_init nx ny pick g a um keys = c_exist_init nx ny pick g a um keys) /\
  (forall g a um keys,
     GamesEnumGen.forall_exist_init nx ny pick pick_iter g a um keys =
     c_forall_exist_init nx ny pick pick_iter g a um keys) /\
  (forall g a um keys,
     GamesEnumGen.exist_forall_init nx ny pick pick_iter g a um keys =
     c_exist_forall_init nx ny pick pick_iter g a um keys) /\
  (forall g a um keys q,
     GamesEnumGen.init_search nx ny pick pick_iter g a um keys q =
     c_init_search nx ny pick pick_iter g a um keys q) /\
  (forall fuel a q,
     GamesEnumGen.action_to_steps_ nx ny pick pick_iter fuel a q =
     c_action_to_steps_ nx ny pick pick_iter fuel a q) /\
  (forall fuel a e s q,
     GamesEnumGen.action_to_steps nx ny pick pick_iter fuel a e s q =
     c_action_to_steps nx ny pick pick_iter fuel a e s q).
Proof. exact gen_is_code. Qed.

(* the abstract worklist model of the first half of this file is the instance
   "next environment values in index order" of the model the code-level model
   is simulated by (EnumOrder.run_o takes the order of dd's pick_iter as a
   parameter) *)
Theorem C12_abstract_model_is_order_instance :
  forall nx ny E S pick fuel g,
  run_o ny E S pick (fun _ => seq 0 nx) fuel g = run nx ny E S pick fuel g.
Proof. exact run_o_seq. Qed.
Print Assumptions C12_abstract_model_is_order_instance.

Section C12translated.
Variables nx ny : nat.
(* a context always has at least one valuation of each player's variables *)
Hypothesis nx_pos : 0 < nx.
Hypothesis ny_pos : 0 < ny.
(* dd's pick / pick_iter: any functions meeting the contracts of
   L4Enum/EnumContracts.v (a member / all members once, for a BDD that depends
   on no variable outside care_vars) *)
Variable pick : bdd -> list var -> option asg.
Variable pick_iter : bdd -> list var -> list asg.
Hypothesis pick_ok : pick_contract nx ny pick.
Hypothesis pick_iter_ok : pick_iter_contract nx ny pick_iter.
(* the two actions and the two initial conditions, by meaning; C12's domain:
   the environment's action does not read the component's next values *)
Variable E : nat -> nat -> nat -> bool.
Variable S : nat -> nat -> nat -> nat -> bool.
Variable EI : nat -> bool.
Variable SI : nat -> nat -> bool.
(* the arguments of action_to_steps(aut, env, sys, qinit) *)
Variable a0 : automaton.
Variables env sys : string.
Hypothesis vl_env : dict_get String.eqb env (a_varlist a0) = Some [U Env].
Hypothesis vl_sys : dict_get String.eqb sys (a_varlist a0) = Some [U Sys].
Hypothesis act_env : dict_get String.eqb env (a_action a0) =
  Some (mkv nx ny (fun r => E (vx r) (vy r) (vxp r))).
Hypothesis act_sys : dict_get String.eqb sys (a_action a0) =
  Some (mkv nx ny (fun r => S (vx r) (vy r) (vxp r) (vyp r))).
Hypothesis init_env : dict_get String.eqb env (a_init a0) =
  Some (mkv nx ny (fun r => EI (vx r))).
Hypothesis init_sys : dict_get String.eqb sys (a_init a0) =
  Some (mkv nx ny (fun r => SI (vx r) (vy r))).

Local Notation translated fuel q :=
  (GamesEnumGen.action_to_steps nx ny pick pick_iter fuel a0 env sys q).

(* whatever graph the translated action_to_steps returns (None = the code
   raises) satisfies C12's statement: the verified checker accepts it *)
Theorem C12_translated_enumeration_sound : forall fuel qinit gf,
  translated fuel qinit = Some gf -> check_graph nx ny E S (graph_of gf) = true.
Proof.
  exact (translated_enumeration_sound nx ny nx_pos ny_pos pick pick_iter pick_ok pick_iter_ok
           E S EI SI a0 env sys vl_env vl_sys act_env act_sys init_env init_sys).
Qed.

(* and its paths are behaviours of the two actions *)
Theorem C12_translated_paths_are_behaviours : forall fuel qinit gf (path : nat -> nat),
  translated fuel qinit = Some gf ->
  (forall i, In (path i, path (Datatypes.S i)) (edges (graph_of gf))) ->
  let sigma := fun i => nth (path i) (nodes (graph_of gf)) (0, 0) in
  forall i, E (fst (sigma i)) (snd (sigma i)) (fst (sigma (Datatypes.S i))) = true /\
            S (fst (sigma i)) (snd (sigma i)) (fst (sigma (Datatypes.S i)))
              (snd (sigma (Datatypes.S i))) = true.
Proof.
  exact (translated_paths_are_behaviours nx ny nx_pos ny_pos pick pick_iter pick_ok pick_iter_ok
           E S EI SI a0 env sys vl_env vl_sys act_env act_sys init_env init_sys).
Qed.

(* the initial nodes (the first nodes of the graph, recorded in
   g.initial_nodes) follow the requested qinit pattern *)
Theorem C12_translated_init_forall_forall : forall fuel gf,
  translated fuel "\A \A" = Some gf ->
  exists l, initial_states gf l /\ NoDup l /\
    forall s, In s l <->
      (fst s < nx /\ snd s < ny) /\ EI (fst s) = true /\ SI (fst s) (snd s) = true.
Proof.
  exact (translated_init_forall_forall nx ny nx_pos ny_pos pick pick_iter pick_ok pick_iter_ok
           E S EI SI a0 env sys vl_env vl_sys act_env act_sys init_env init_sys).
Qed.

Theorem C12_translated_init_exists_exists : forall fuel gf,
  translated fuel "\E \E" = Some gf ->
  exists x y, initial_states gf [(x, y)] /\ x < nx /\ y < ny /\ SI x y = true.
Proof.
  exact (translated_init_exists_exists nx ny nx_pos ny_pos pick pick_iter pick_ok pick_iter_ok
           E S EI SI a0 env sys vl_env vl_sys act_env act_sys init_env init_sys).
Qed.

Theorem C12_translated_init_forall_exists : forall fuel gf,
  translated fuel "\A \E" = Some gf ->
  exists l, initial_states gf l /\ NoDup l /\
    NoDup (map fst l) /\ (forall x, In x (map fst l) <-> x < nx /\ EI x = true) /\
    forall s, In s l -> snd s < ny /\ EI (fst s) = true /\ SI (fst s) (snd s) = true.
Proof.
  exact (translated_init_forall_exists nx ny nx_pos ny_pos pick pick_iter pick_ok pick_iter_ok
           E S EI SI a0 env sys vl_env vl_sys act_env act_sys init_env init_sys).
Qed.

Theorem C12_translated_init_exists_forall : forall fuel gf,
  translated fuel "\E \A" = Some gf ->
  exists l y, initial_states gf l /\ NoDup l /\
    y < ny /\ (forall x, x < nx -> SI x y = true) /\ (forall s, In s l -> snd s = y) /\
    NoDup (map fst l) /\ (forall x, In x (map fst l) <-> x < nx /\ EI x = true).
Proof.
  exact (translated_init_exists_forall nx ny nx_pos ny_pos pick pick_iter pick_ok pick_iter_ok
           E S EI SI a0 env sys vl_env vl_sys act_env act_sys init_env init_sys).
Qed.

(* termination of `while queue:`: with fuel >= number of valuations, more fuel
   gives the same result (None is then an exception of the code, never fuel) *)
Theorem C12_translated_fuel_never_exhausted : forall fuel k qinit,
  nx * ny <= fuel -> translated (fuel + k) qinit = translated fuel qinit.
Proof.
  exact (translated_fuel_never_exhausted nx ny nx_pos ny_pos pick pick_iter pick_ok pick_iter_ok
           E S EI SI a0 env sys vl_env vl_sys act_env act_sys init_env init_sys).
Qed.
End C12translated.

(* non-vacuity of the hypotheses: concrete pick / pick_iter meet the contracts
   on every arena; with them the translated action_to_steps, evaluated in Coq
   on a 2 x 3 arena, returns for each qinit a graph of several nodes that the
   checker accepts *)
Example C12_pick_contracts_satisfiable : forall nx ny,
  pick_contract nx ny (pick0 nx ny) /\ pick_iter_contract nx ny (pick_iter0 nx ny).
Proof. intros nx ny. split; [apply pick0_ok|apply pick_iter0_ok]. Qed.

Example C12_translated_example :
  forallb (fun q =>
    match GamesEnumGen.action_to_steps 2 3 (pick0 2 3) (pick_iter0 2 3) 20 ex_aut "e" "s" q with
    | Some g => check_graph 2 3 ex_E ex_S (graph_of g) &&
                (2 <=? List.length (g_nodes g)) &&
                match g_initial g with Some (_ :: _) => true | _ => false end
    | None => false
    end) ["\A \A"; "\E \E"; "\A \E"; "\E \A"]%string = true.
Proof. exact translated_example. Qed.

Print Assumptions C12_paths_are_behaviours.
Print Assumptions C12_paths_inherit.
Print Assumptions C12_enumeration_sound.
Print Assumptions C12_fuel_never_exhausted.
Print Assumptions C12_checker_input_complete.
Print Assumptions C12_init_forall_exists.
Print Assumptions C12_init_exists_forall.
Print Assumptions C12_model_is_translated_code.
Print Assumptions C12_translated_enumeration_sound.
Print Assumptions C12_translated_paths_are_behaviours.
Print Assumptions C12_translated_init_forall_forall.
Print Assumptions C12_translated_init_exists_exists.
Print Assumptions C12_translated_init_forall_exists.
Print Assumptions C12_translated_init_exists_forall.
Print Assumptions C12_translated_fuel_never_exhausted.
Print Assumptions C12_pick_contracts_satisfiable.
