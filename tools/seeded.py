"""Confirm seeded changes and run the checks against them.

usage: seeded.py <PID> <outdir> <worktree> [check-ids...]
For k = 1..: outdir/patch_k.diff, demo_k.py, notes_k.txt
 1. in the scratch worktree: clean -> demo passes; apply -> 210 tests pass,
    demo fails; revert -> demo passes
 2. on /repo: apply, run ./check for the property (quick), record outcome,
    revert (git checkout -- .)
Results are stored under /verif/seeded/<PID>-<k>/ (patch.diff, demo.py,
notes.txt, meta.json).
"""
import json
import os
import re
import shutil
import subprocess
import sys
import time

VERIF = '/verif'


def sh(cmd, cwd=None, env=None, timeout=3600):
    e = dict(os.environ)
    if env:
        e.update(env)
    r = subprocess.run(cmd, shell=True, cwd=cwd, env=e, capture_output=True,
                       text=True, timeout=timeout)
    return r.returncode, r.stdout + r.stderr


def demo(wt, path):
    rc, out = sh(f'/venv/bin/python {path}', cwd=wt,
                 env=dict(PYTHONPATH=wt, PYTHONHASHSEED='0'), timeout=1200)
    return rc, out[-800:]


def main():
    pid, outdir, wt = sys.argv[1:4]
    checks = sys.argv[4:] or [pid]
    k = 1
    while os.path.exists(f'{outdir}/patch_{k}.diff'):
        patch, dm = f'{outdir}/patch_{k}.diff', f'{outdir}/demo_{k}.py'
        meta = dict(property=pid, k=k + int(os.environ.get('SEEDED_OFFSET', '0')), checks={})
        sh('git checkout -- . && git clean -fdq', cwd=wt)
        rc0, _ = demo(wt, dm)
        rca, outa = sh(f'git apply {patch}', cwd=wt)
        rct, outt = sh('/venv/bin/python -m pytest -q -p no:cacheprovider '
                       '--timeout=900 2>&1 | tail -3', cwd=wt)
        rc1, out1 = demo(wt, dm)
        sh('git checkout -- . && git clean -fdq', cwd=wt)
        rc2, _ = demo(wt, dm)
        m = re.search(r'(\d+) passed', outt)
        failed = re.search(r'(\d+) failed', outt)
        meta['confirm'] = dict(
            demo_clean_rc=rc0, patch_applies=(rca == 0),
            tests_passed=int(m.group(1)) if m else None,
            tests_failed=int(failed.group(1)) if failed else 0,
            demo_patched_rc=rc1, demo_patched_tail=out1,
            demo_reverted_rc=rc2)
        ok = (rc0 == 0 and rca == 0 and m and int(m.group(1)) >= 210
              and not failed and rc1 != 0 and rc2 == 0)
        meta['confirmed'] = bool(ok)
        if ok:
            # run the checks on /repo itself
            # While other people run checks against /repo, set
            # SEEDED_VIA_WORKTREE=1: the change is applied to the scratch
            # worktree and the checks read the library from there
            # (OMEGA_REPO); otherwise it is applied to /repo itself.
            via_wt = bool(os.environ.get('SEEDED_VIA_WORKTREE'))
            target = wt if via_wt else '/repo'
            st, _ = sh('git status --porcelain --untracked-files=no',
                       cwd=target)
            assert not st, target + ' not clean'
            rc, o = sh(f'git apply {patch}', cwd=target)
            meta['applied_to'] = target
            # evidence files must stay those of the unchanged tree
            saved_ev = {}
            for cid in checks:
                ep = f'{VERIF}/evidence/{cid}.json'
                if os.path.exists(ep):
                    saved_ev[ep] = open(ep).read()
            try:
                for cid in checks:
                    t = time.time()
                    rc, o = sh(f'./check {cid} --tier quick', cwd=VERIF,
                               env=dict(OMEGA_REPO=target), timeout=3000)
                    viol = [l for l in o.splitlines()
                            if l.startswith('VIOLATION')]
                    meta['checks'][cid] = dict(
                        rc=rc, violation_lines=viol[:3],
                        wall_s=round(time.time() - t, 1),
                        tail=o[-600:])
                    for v in viol[:1]:
                        mm = re.search(r'replay=(\S+)', v)
                        if mm and os.path.exists(mm.group(1)):
                            d = json.load(open(mm.group(1)))
                            meta['checks'][cid]['replay_kind'] = d.get('kind')
                            meta['checks'][cid]['replay_what'] = str(
                                d.get('what') or d.get('broken'))[:400]
            finally:
                sh('git checkout -- .', cwd=target)
                for ep, txt in saved_ev.items():
                    open(ep, 'w').write(txt)
        kk = k + int(os.environ.get('SEEDED_OFFSET', '0'))
        dst = f'{VERIF}/seeded/{pid}-{kk}'
        os.makedirs(dst, exist_ok=True)
        shutil.copy(patch, f'{dst}/patch.diff')
        shutil.copy(dm, f'{dst}/demo.py')
        if os.path.exists(f'{outdir}/notes_{k}.txt'):
            shutil.copy(f'{outdir}/notes_{k}.txt', f'{dst}/notes.txt')
        meta['needs'] = open(f'{dst}/notes.txt').read()[:1500] \
            if os.path.exists(f'{dst}/notes.txt') else ''
        meta['ran'] = [f'./check {c} --tier quick' for c in checks]
        if os.path.exists(f'{dst}/meta.json'):
            try:
                h = json.load(open(f'{dst}/meta.json')).get('history')
                if h:
                    meta['history'] = h
            except Exception:
                pass
        json.dump(meta, open(f'{dst}/meta.json', 'w'), indent=1)
        det = {c: (v['rc'], len(v['violation_lines']))
               for c, v in meta['checks'].items()}
        print(f'{pid}-{kk}: confirmed={ok} checks={det}', flush=True)
        k += 1


main()
