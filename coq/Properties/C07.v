(* C07 — Context operations on BDDs equal the same operations on sets of
   assignments.  Statements only; proofs in theories/L0Bits/BitsFacts.v and
   theories/L3Context/CtxFacts.v.

   Reading guide.  [t] is the declaration table of a fol.Context; a BDD [u] is
   modelled by its meaning on bit assignments and [uses_only (all_bits t) u]
   says it lives in the context's manager.  [sem t u f] is the truth of u at
   the first-order assignment f (integers/Booleans); [in_range t f] says f
   takes representable values (inside the bitfield limits).  The explicit set
   of assignments denoted by u is { f | in_range t f /\ sem t u f = true }. *)
From Coq Require Import ZArith List Bool String Lia.
From Omega Require Import L0Bits.Bits L0Bits.BitsFacts L3Context.Ctx L3Context.CtxFacts
  L3Context.Prime L3Context.Naming L3Context.NamingFacts.
From OmegaGen Require EnumGen.
From OmegaGP Require Import EnumBridge.
Import ListNotations.
Open Scope Z_scope.

(* ---- the refinement is a bijection ------------------------------------------------ *)
(* every bit assignment is (on the declared bits) the refinement of exactly the
   assignment of representable values it decodes to *)
Theorem C07_bits_values_bijection : forall t, wf_tbl t ->
  (forall f x d, in_range t f -> In (x, d) t -> decode t (encode t f) x = f x) /\
  (forall a b, In b (all_bits t) -> encode t (decode t a) b = a b) /\
  (forall a, in_range t (decode t a)).
Proof.
  intros t Hwf. split; [|split].
  - intros f x d Hf Hin. apply (decode_encode_f t f x d); auto.
  - intros a b Hb. apply encode_decode_b; auto.
  - intro a. apply decode_in_range; auto.
Qed.

(* ---- enumeration of a partial bit vector -------------------------------------------- *)
Theorem C07_enumerate_int_spec : forall bs, bs <> [] ->
  (forall v, In v (enumerate_int bs) <->
             exists l, agrees bs l /\ twos_complement_to_int l = v) /\
  NoDup (enumerate_int bs).
Proof. exact enumerate_int_spec. Qed.

(* ---- substitution of values ---------------------------------------------------------- *)
Theorem C07_let_values_spec : forall t defs u,
  wf_tbl t -> uses_only (all_bits t) u -> vals_ok t defs ->
  exists r, ctx_let_vals t defs u = Some r /\ uses_only (all_bits t) r /\
    forall f, sem t r f = sem t u (foverride f defs).
Proof. exact let_values_spec. Qed.

(* ---- substitution of same-typed variables ---------------------------------------------- *)
Theorem C07_rename_spec : forall t ren u,
  wf_tbl t -> uses_only (all_bits t) u -> ren_ok t ren ->
  exists r, ctx_let_vars t ren u = Some r /\ uses_only (all_bits t) r /\
    forall f, sem t r f = sem t u (frename f ren).
Proof. exact rename_spec. Qed.

(* ---- quantification: over exactly the representable values ------------------------------- *)
Theorem C07_exist_spec : forall t qvars u,
  wf_tbl t -> uses_only (all_bits t) u ->
  (forall x, In x qvars -> exists d, tlookup x t = Some d) ->
  exists r, ctx_exist t qvars u = Some r /\ uses_only (all_bits t) r /\
    forall f, in_range t f ->
      (sem t r f = true <->
       exists f', in_range t f' /\ agree_off qvars f f' /\ sem t u f' = true).
Proof. exact exist_spec. Qed.

Theorem C07_forall_spec : forall t qvars u,
  wf_tbl t -> uses_only (all_bits t) u ->
  (forall x, In x qvars -> exists d, tlookup x t = Some d) ->
  exists r, ctx_forall t qvars u = Some r /\ uses_only (all_bits t) r /\
    forall f, in_range t f ->
      (sem t r f = true <->
       forall f', in_range t f' -> agree_off qvars f f' -> sem t u f' = true).
Proof. exact forall_spec. Qed.

(* ---- construction from an assignment ------------------------------------------------------ *)
Theorem C07_assign_from_spec : forall t m, wf_tbl t -> vals_ok t m ->
  exists r, ctx_assign_from t m = Some r /\ uses_only (all_bits t) r /\
    forall f, in_range t f -> (sem t r f = true <-> extends f m).
Proof. exact assign_from_spec. Qed.

(* ---- support -------------------------------------------------------------------------------- *)
Theorem C07_support_spec : forall t u, wf_tbl t -> uses_only (all_bits t) u ->
  exists s, ctx_support t u = Some s /\ NoDup s /\
    forall x, In x s <->
      exists d f v, In (x, d) t /\ in_range t f /\ val_in_range d v = true /\
                    sem t u f <> sem t u (fupd f x v).
Proof. exact support_spec. Qed.

(* ---- Boolean combination ---------------------------------------------------------------------- *)
Theorem C07_apply_spec : forall t op u v w r, bapply op u v w = Some r ->
  forall f, sem t r f =
    match op, v, w with
    | OpNot, _, _ => negb (sem t u f)
    | OpAnd, Some v, _ => sem t u f && sem t v f
    | OpOr, Some v, _ => sem t u f || sem t v f
    | OpXor, Some v, _ => xorb (sem t u f) (sem t v f)
    | OpImplies, Some v, _ => implb (sem t u f) (sem t v f)
    | OpEquiv, Some v, _ => Bool.eqb (sem t u f) (sem t v f)
    | OpDiff, Some v, _ => sem t u f && negb (sem t v f)
    | OpIte, Some v, Some w => if sem t u f then sem t v f else sem t w f
    | _, _, _ => false
    end.
Proof. exact apply_spec. Qed.

(* ---- pick_iter ----------------------------------------------------------------------------------
   For ANY list of cubes meeting the contract of dd.pick_iter for (u, care bits):
   the iteration succeeds; the yielded dictionaries are pairwise distinct, hold
   representable values, have no common extension (pairwise incompatible),
   every extension of one satisfies u, and every satisfying assignment extends
   exactly one. *)
Theorem C07_pick_iter_spec : forall t u care_vars cb cubes,
  wf_tbl t -> uses_only (all_bits t) u ->
  care_bits_of t care_vars = Some cb ->
  contract (all_bits t) u cb cubes ->
  exists ds, ctx_pick_iter t u care_vars cubes = Some ds /\
    NoDup ds /\
    (forall d, In d ds -> NoDup (map fst d) /\
       forall y w, In (y, w) d -> exists dy, In (y, dy) t /\ val_in_range dy w = true) /\
    (forall d f, In d ds -> in_range t f -> extends f d -> sem t u f = true) /\
    (forall f, in_range t f -> sem t u f = true -> exists d, In d ds /\ extends f d) /\
    (forall f d1 d2, in_range t f -> In d1 ds -> In d2 ds ->
       extends f d1 -> extends f d2 -> d1 = d2).
Proof.
  intros t u care_vars cb cubes Hwf Hu Hcare Hct.
  eexists. split; [apply (pick_iter_value t u care_vars cb cubes); auto|].
  split; [apply (pick_iter_nodup t u cb cubes); auto|].
  split; [intros d Hd; apply (pick_iter_values t cubes Hwf d Hd)|].
  split; [intros d f; apply (pick_iter_sound t u cb cubes); auto|].
  split; [intros f; apply (pick_iter_complete t u cb cubes); auto|].
  intros f d1 d2. apply (pick_iter_unique t u cb cubes); auto.
Qed.

(* the Boolean contract evaluated on the real cubes on every run implies the
   contract used above *)
Theorem C07_contract_checked : forall univ u care cubes, uses_only univ u ->
  cube_contract_b univ u care cubes = true -> contract univ u care cubes.
Proof. exact contract_of_bool. Qed.

(* with care_vars = None or care_vars >= support, every yielded dictionary is
   total over support \/ care_vars: with the above, iteration yields every
   satisfying assignment over the requested variables exactly once and nothing
   else *)
Theorem C07_pick_iter_total : forall t u care_vars cb cubes s,
  wf_tbl t -> uses_only (all_bits t) u ->
  care_bits_of t care_vars = Some cb ->
  contract (all_bits t) u cb cubes ->
  ctx_support t u = Some s ->
  match care_vars with
  | None => True
  | Some cv => forall x, In x s -> In x cv
  end ->
  forall ds, ctx_pick_iter t u care_vars cubes = Some ds ->
  forall d, In d ds ->
  forall y, In y (map fst d) <->
            In y s \/ In y (match care_vars with Some cv => cv | None => [] end).
Proof.
  intros t u care_vars cb cubes s Hwf Hu Hcare Hct Hs Hcov ds Hds d Hd.
  rewrite (pick_iter_value t u care_vars cb cubes) in Hds by auto.
  inversion Hds; subst ds.
  apply (pick_iter_total t u care_vars cb cubes s); auto.
Qed.

(* non-vacuity: the hypotheses (incl. the dd.pick_iter contract) are satisfiable *)
Example C07_hypotheses_satisfiable :
  let t : tbl := [("x"%string, DInt (mkHint 2 false (0, 2))); ("b"%string, DBool)] in
  let u : pred := fun a => a ("x"%string, 0%nat) || a ("b"%string, 0%nat) in
  uses_only (all_bits t) u /\ wf_tbl t /\
  contract (all_bits t) u (Some (all_bits t)) (canonical_cubes (all_bits t) u) /\
  care_bits_of t (Some ["x"%string; "b"%string]) = Some (Some (all_bits t)).
Proof. exact canonical_cubes_contract. Qed.

Example C07_vals_ok_example :
  vals_ok [("x"%string, DInt (mkHint 2 false (0, 2))); ("b"%string, DBool)]
          [("x"%string, VZ 3); ("b"%string, VB true)].
Proof.
  split.
  - repeat constructor; cbn; intuition; discriminate.
  - intros x v [E|[E|[]]]; inversion E; subst; eexists; split; reflexivity.
Qed.

Example C07_ren_ok_example :
  ren_ok [("x"%string, DInt (mkHint 2 false (0, 2))); ("y"%string, DInt (mkHint 2 false (0, 2)))]
         [("x"%string, "y"%string); ("y"%string, "x"%string)].
Proof.
  split.
  - repeat constructor; cbn; intuition; discriminate.
  - intros x y [E|[E|[]]]; inversion E; subst; eexists; repeat split;
      try reflexivity; discriminate.
Qed.

(* ---- pick ------------------------------------------------------------------------------------------ *)
Theorem C07_pick_spec : forall t u care_vars cb cubes,
  wf_tbl t -> uses_only (all_bits t) u ->
  care_bits_of t care_vars = Some cb -> contract (all_bits t) u cb cubes ->
  exists r, ctx_pick t u care_vars cubes = Some r /\
    match r with
    | None => forall f, in_range t f -> sem t u f = false
    | Some d => forall f, in_range t f -> extends f d -> sem t u f = true
    end.
Proof. exact pick_spec. Qed.

(* ---- substitution of BDDs for Boolean-valued variables ------------------------------------------ *)
Theorem C07_replace_with_bdd_spec : forall t subs u,
  wf_tbl t -> uses_only (all_bits t) u ->
  (forall x q, In (x, q) subs -> tlookup x t = Some DBool) ->
  forall f, sem t (ctx_replace_with_bdd subs u) f =
    sem t u (fun x => match dict_get String.eqb x subs with
                      | Some q => VB (sem t q f)
                      | None => f x
                      end).
Proof. exact replace_with_bdd_spec. Qed.

(* ---- bit names (finding F15) ---------------------------------------------------------------------
   The model identifies a bit with (variable, index).  This is faithful when the
   printing of bits as dd variable names is injective on the declared bits: *)
Theorem C07_naming_injective : forall t, naming_injective t = true ->
  forall b1 b2, In b1 (all_bits t) -> In b2 (all_bits t) ->
    bit_str t b1 = bit_str t b2 -> NoDup (all_bits t) -> b1 = b2.
Proof. exact naming_injective_spec. Qed.

(* refuted for the code before fixes/F15.patch: Boolean b_0 and integer b were
   both accepted when declared in separate calls, and bit 0 of b prints as b_0 *)
Example C07_refuted_naming_old_code :
  let t := [("b_0"%string, DBool); ("b"%string, DInt (mkHint 2 false (0, 3)))] in
  naming_injective t = false /\
  bit_str t ("b"%string, 0%nat) = bit_str t ("b_0"%string, 0%nat).
Proof. exact F15_collision_old_code. Qed.

(* the guard of fixes/F15.patch rejects the second declaration in either order *)
Example C07_F15_guard_rejects :
  add_vars_guard [("b_0"%string, DBool)]
                 [("b"%string, DInt (mkHint 2 false (0, 3)))] = false /\
  add_vars_guard [("b"%string, DInt (mkHint 2 false (0, 3)))]
                 [("b_0"%string, DBool)] = false /\
  add_vars_guard [("a"%string, DBool)]
                 [("b"%string, DInt (mkHint 2 false (0, 3)))] = true.
Proof. exact F15_guard_rejects. Qed.

(* ---- count ---------------------------------------------------------------------------------------- *)
(* count = the number of assignments to the bits of the care variables
   (default: the support) that satisfy u — by the bijection above, the number
   of assignments of representable values to those variables that satisfy u *)
Theorem C07_count_spec : forall t u care_vars s,
  wf_tbl t -> uses_only (all_bits t) u -> ctx_support t u = Some s ->
  let cv := match care_vars with Some c => c | None => s end in
  (forall x, In x s -> In x cv) ->
  (forall x, In x cv -> exists d, tlookup x t = Some d) ->
  exists bits, refine_vars cv t = Some bits /\ NoDup bits /\
    ctx_count t u care_vars = Some (countZ u (all_asgs bits)).
Proof. exact count_spec. Qed.

(* count equals the number of dictionaries yielded by pick_iter, for an
   explicit care set covering the support and ANY cubes meeting the contract *)
Theorem C07_count_eq_yield : forall t u cv cb cubes s,
  wf_tbl t -> uses_only (all_bits t) u -> ctx_support t u = Some s ->
  (forall x, In x s -> In x cv) ->
  (forall x, In x cv -> exists d, tlookup x t = Some d) ->
  care_bits_of t (Some cv) = Some cb ->
  contract (all_bits t) u cb cubes ->
  exists n ds, ctx_count t u (Some cv) = Some n /\
    ctx_pick_iter t u (Some cv) cubes = Some ds /\
    n = Z.of_nat (List.length ds) /\ n = Z.of_nat (List.length cubes).
Proof. exact count_eq_yield. Qed.

(* care_vars = None: count(u) is count(u, support) *)
Theorem C07_count_default : forall t u s, ctx_support t u = Some s ->
  ctx_count t u None = ctx_count t u (Some s).
Proof. exact count_default. Qed.

(* care_vars = None: the cubes of dd.pick_iter are total over the support BITS
   only, so one cube may yield several dictionaries; their total number still
   equals count(u) *)
Theorem C07_count_eq_yield_default : forall t u cubes s,
  wf_tbl t -> uses_only (all_bits t) u -> ctx_support t u = Some s ->
  contract (all_bits t) u None cubes ->
  exists n ds, ctx_count t u None = Some n /\
    ctx_pick_iter t u None cubes = Some ds /\ n = Z.of_nat (List.length ds).
Proof. exact count_eq_yield_default. Qed.

(* ==== tie T: the enumeration code is TRANSLATED ======================================================
   omega/symbolic/enumeration.py (_enumerate_int, _take_product_iter,
   _bitfields_to_int_iter) and omega/logic/bitvector.py (_append_sign_bit) are
   translated into Gallina on every run (tools/py2coq_enum.py -> gen/EnumGen.v;
   generators become the list of yielded values, None is any exception, fuel
   bounds the recursion depth) and GenProofs/EnumBridge.v proves, on every run,
   that the generated definitions ARE the model used above:
     - _append_sign_bit, _enumerate_int: equal (same list, same order; failure
       in the same cases) for every non-empty bit field / every index in range;
     - _take_product_iter, _bitfields_to_int_iter: equal to the model applied
       to the REVERSED dict of sets (the code pops the last item, the model
       takes the first), for every table with distinct names; the reversed
       model yields the same dictionaries as the model up to the order of the
       list and of the keys, the same number, without repetition.
   The statements hold for EVERY sufficient fuel ([fuel_ok]; one always
   exists). *)
Theorem C07_enumeration_model_is_translated_code :
  (forall (B T : Type) bits var (d : EnumGen.entry B), bits <> [] ->
     @EnumGen.append_sign_bit B T bits var d =
     m_of_opt (Bits.append_sign_bit (Some false) (Some true) bits (hint_of d))) /\
  (forall fuel bs j, 0 <= j < Z.of_nat (List.length bs) ->
     (Z.to_nat (Z.of_nat (List.length bs) - j) <= fuel)%nat ->
     EnumGen.enumerate_int fuel bs j =
     Some (Datatypes.tt, enumerate_int_from j (skipn (Z.to_nat j) bs))) /\
  (forall fuel bs, bs <> [] -> (List.length bs <= fuel)%nat ->
     EnumGen.enumerate_int fuel bs 0 = Some (Datatypes.tt, Bits.enumerate_int bs)) /\
  (forall fuel bs j, Z.of_nat (List.length bs) <= j ->
     EnumGen.enumerate_int fuel bs j = None) /\
  (forall sets fuel model, (List.length sets < fuel)%nat ->
     NoDup (map fst sets) ->
     (forall x, In x (map fst sets) -> ~ In x (map fst model)) ->
     EnumGen.take_product_iter fuel sets model =
     Some (Datatypes.tt, Ctx.take_product (rev sets) model)) /\
  (forall t c fuel, NoDup (map fst t) -> fuel_ok t fuel ->
     EnumGen.bitfields_to_int_iter bit bit_eqb bool_bit fuel c (table_of t) =
     match bitfields_rev t c with
     | Some L => Some (Datatypes.tt, L)
     | None => None
     end) /\
  (forall t c, wf_tbl t -> cube_ok (all_bits t) c ->
     exists Lr Lm, bitfields_rev t c = Some Lr /\
       Ctx.bitfields_to_int_iter t c = Some Lm /\
       List.length Lr = List.length Lm /\ NoDup Lr /\ NoDup Lm /\
       (forall d, In d Lr -> exists d', In d' Lm /\ Permutation.Permutation d d') /\
       (forall d', In d' Lm -> exists d, In d Lr /\ Permutation.Permutation d d')).
Proof. exact enumeration_model_is_translated_code. Qed.

(* C07_enumerate_int_spec for the translated generator *)
Theorem C07_translated_enumerate_int_spec : forall fuel bs,
  bs <> [] -> (List.length bs <= fuel)%nat ->
  exists l, EnumGen.m_values (EnumGen.enumerate_int fuel bs 0) = Some l /\
    (forall v, In v l <->
               exists bits, agrees bs bits /\ twos_complement_to_int bits = v) /\
    NoDup l.
Proof. exact enumerate_int_gen_spec. Qed.

(* C07_pick_iter_spec for Context.pick_iter running the translated
   _bitfields_to_int_iter (ctx_pick_iter_gen): sound, complete, exactly once *)
Theorem C07_translated_pick_iter_spec : forall t u care_vars cb cubes fuel,
  wf_tbl t -> uses_only (all_bits t) u ->
  care_bits_of t care_vars = Some cb ->
  contract (all_bits t) u cb cubes -> fuel_ok t fuel ->
  exists ds, ctx_pick_iter_gen fuel t u care_vars cubes = Some ds /\
    NoDup ds /\
    (forall d, In d ds -> NoDup (map fst d) /\
       forall y w, In (y, w) d -> exists dy, In (y, dy) t /\ val_in_range dy w = true) /\
    (forall d f, In d ds -> in_range t f -> extends f d -> sem t u f = true) /\
    (forall f, in_range t f -> sem t u f = true -> exists d, In d ds /\ extends f d) /\
    (forall f d1 d2, in_range t f -> In d1 ds -> In d2 ds ->
       extends f d1 -> extends f d2 -> d1 = d2).
Proof. exact pick_iter_gen_spec. Qed.

Theorem C07_translated_pick_iter_total : forall t u care_vars cb cubes s fuel,
  wf_tbl t -> uses_only (all_bits t) u ->
  care_bits_of t care_vars = Some cb ->
  contract (all_bits t) u cb cubes -> fuel_ok t fuel ->
  ctx_support t u = Some s ->
  match care_vars with
  | None => True
  | Some cv => forall x, In x s -> In x cv
  end ->
  forall ds, ctx_pick_iter_gen fuel t u care_vars cubes = Some ds ->
  forall d, In d ds ->
  forall y, In y (map fst d) <->
            In y s \/ In y (match care_vars with Some cv => cv | None => [] end).
Proof. exact pick_iter_gen_total. Qed.

Theorem C07_translated_count_eq_yield : forall t u cv cb cubes s fuel,
  wf_tbl t -> uses_only (all_bits t) u -> ctx_support t u = Some s ->
  (forall x, In x s -> In x cv) ->
  (forall x, In x cv -> exists d, tlookup x t = Some d) ->
  care_bits_of t (Some cv) = Some cb ->
  contract (all_bits t) u cb cubes -> fuel_ok t fuel ->
  exists n ds, ctx_count t u (Some cv) = Some n /\
    ctx_pick_iter_gen fuel t u (Some cv) cubes = Some ds /\
    n = Z.of_nat (List.length ds) /\ n = Z.of_nat (List.length cubes).
Proof. exact count_eq_yield_gen. Qed.

Theorem C07_translated_count_eq_yield_default : forall t u cubes s fuel,
  wf_tbl t -> uses_only (all_bits t) u -> ctx_support t u = Some s ->
  contract (all_bits t) u None cubes -> fuel_ok t fuel ->
  exists n ds, ctx_count t u None = Some n /\
    ctx_pick_iter_gen fuel t u None cubes = Some ds /\ n = Z.of_nat (List.length ds).
Proof. exact count_eq_yield_default_gen. Qed.

(* non-vacuity: sufficient fuel exists for every table; and the translated code
   runs: one cube of the example context, in the order Python yields *)
Example C07_fuel_exists : forall t, exists fuel, fuel_ok t fuel.
Proof. exact fuel_ok_exists. Qed.

Example C07_translated_code_runs :
  let t : tbl := [("x"%string, DInt (mkHint 2 false (0, 2))); ("b"%string, DBool);
                  ("y"%string, DInt (mkHint 3 true (-3, 2)))] in
  let c : cube := [(("x"%string, 1%nat), true); (("b"%string, 0%nat), false);
                   (("y"%string, 2%nat), true); (("y"%string, 0%nat), false)] in
  fuel_ok t 5 /\
  EnumGen.m_values
    (EnumGen.bitfields_to_int_iter bit bit_eqb bool_bit 5 c (table_of t)) =
  Some [[("b"%string, VB false); ("x"%string, VZ 2); ("y"%string, VZ (-4))];
        [("b"%string, VB false); ("x"%string, VZ 2); ("y"%string, VZ (-2))];
        [("b"%string, VB false); ("x"%string, VZ 3); ("y"%string, VZ (-4))];
        [("b"%string, VB false); ("x"%string, VZ 3); ("y"%string, VZ (-2))]].
Proof.
  split; [|vm_compute; reflexivity].
  split; [cbn; lia|].
  intros x h [E|[E|[E|[]]]]; inversion E; subst; cbn; lia.
Qed.

Print Assumptions C07_bits_values_bijection.
Print Assumptions C07_enumerate_int_spec.
Print Assumptions C07_let_values_spec.
Print Assumptions C07_rename_spec.
Print Assumptions C07_exist_spec.
Print Assumptions C07_forall_spec.
Print Assumptions C07_assign_from_spec.
Print Assumptions C07_support_spec.
Print Assumptions C07_apply_spec.
Print Assumptions C07_pick_iter_spec.
Print Assumptions C07_contract_checked.
Print Assumptions C07_pick_iter_total.
Print Assumptions C07_count_spec.
Print Assumptions C07_count_eq_yield.
Print Assumptions C07_count_default.
Print Assumptions C07_count_eq_yield_default.
Print Assumptions C07_pick_spec.
Print Assumptions C07_replace_with_bdd_spec.
Print Assumptions C07_naming_injective.
Print Assumptions C07_enumeration_model_is_translated_code.
Print Assumptions C07_translated_enumerate_int_spec.
Print Assumptions C07_translated_pick_iter_spec.
Print Assumptions C07_translated_pick_iter_total.
Print Assumptions C07_translated_count_eq_yield.
Print Assumptions C07_translated_count_eq_yield_default.
