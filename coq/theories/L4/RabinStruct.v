(* L4 / RabinStruct: the level structure of the Rabin(1) fixpoint

     mu Z. \/_k nu Y. /\_j mu X. (cpre X \/ R_j) /\ cpre Y /\ (cpre Z \/ P_k)

   used by the strategy of RabinStrategy.v: the levels Z^a of the outer least
   fixpoint, the traps Y_{a,k} = nu Y [...] over level a, the iterates
   X^r_{a,k,j} of the inner attractors, with the unfolding facts. *)
From Coq Require Import List Bool Arith Lia.
Import ListNotations.
From Omega Require Import L4.Arena L4.ArenaFacts L4.Kleene L4.AlgOrder L4.GameSpec L4.Mu
  L4.GR1Spec L4.Ranks.

Section RabinStruct.
Variables nc nx ny : nat.
Variables moore plus_one : bool.
Variables E S : bdd.
Variables holds goals : list bdd.

Local Notation le := (le nc nx ny).
Local Notation eqv := (eqv nc nx ny).
Local Notation inr := (inr nc nx ny).
Local Notation band := (band nc nx ny).
Local Notation bor := (bor nc nx ny).
Local Notation NV := (NV nc nx ny).
Local Notation cpre := (cpre nx ny moore plus_one E S).
Local Notation rX_op := (rX_op nc nx ny moore plus_one E S).
Local Notation rX := (rX nc nx ny moore plus_one E S).
Local Notation rY_op := (rY_op nc nx ny moore plus_one E S goals).
Local Notation rY := (rY nc nx ny moore plus_one E S goals).
Local Notation rZ_op := (rZ_op nc nx ny moore plus_one E S holds goals).
Local Notation rabin_spec := (rabin_spec nc nx ny moore plus_one E S holds goals).

Definition Zl (a : nat) : bdd := it rZ_op a.
Definition gk (a : nat) (P : bdd) : bdd := bor (cpre (Zl a)) P.
Definition Yk (a : nat) (P : bdd) : bdd := rY (gk a P).
Definition ins (a : nat) (P : bdd) : bdd := band (cpre (Yk a P)) (gk a P).
Definition Xr (a : nat) (P R : bdd) (r : nat) : bdd := it (rX_op R (ins a P)) r.
Definition muX (a : nat) (P R : bdd) : bdd := rX R (ins a P).

Lemma Zl_mono a b : a <= b -> le (Zl a) (Zl b).
Proof. apply it_le. apply rZ_op_mono. Qed.

(* a member of the region has a level *)
Lemma region_level v :
  inr v -> rabin_spec v = true -> exists a, a <= NV /\ Zl (Datatypes.S a) v = true.
Proof.
  intros Hv H.
  apply (lfp_in_iterate nc nx ny rZ_op rabin_spec v); try assumption.
  - apply rZ_op_mono.
  - apply rabin_spec_is_lfp.
Qed.

Lemma Zl_in_region a : le (Zl a) rabin_spec.
Proof. apply it_below; [apply rZ_op_mono|apply rabin_spec_is_lfp]. Qed.

(* level a+1 is the union of the traps over level a *)
Lemma Zl_succ a v :
  Zl (Datatypes.S a) v = true <-> exists P, In P holds /\ Yk a P v = true.
Proof.
  unfold Zl. cbn [it]. unfold GR1Spec.rZ_op, big_or. rewrite existsb_exists. split.
  - intros [f [Hf Hv]]. apply in_map_iff in Hf. destruct Hf as [P [<- HP]].
    exists P. split; [exact HP|exact Hv].
  - intros [P [HP Hv]]. exists (rY (bor (cpre (it rZ_op a)) P)). split; [|exact Hv].
    apply in_map_iff. exists P. split; [reflexivity|exact HP].
Qed.

(* a trap is inside every one of its inner attractors *)
Lemma Yk_in_muX a P R v :
  inr v -> In R goals -> Yk a P v = true -> muX a P R v = true.
Proof.
  intros Hv HR H. unfold Yk in H.
  destruct (rY_is_gfp nc nx ny moore plus_one E S goals (gk a P)) as [Heq _].
  rewrite <- (Heq v Hv) in H. unfold GR1Spec.rY_op, big_and in H.
  rewrite forallb_forall in H. apply H. apply in_map_iff. exists R. split; [reflexivity|exact HR].
Qed.

(* one unfolding of an inner iterate *)
Lemma Xr_succ a P R r v :
  Xr a P R (Datatypes.S r) v = true <->
  (cpre (Xr a P R r) v = true \/ R v = true) /\
  cpre (Yk a P) v = true /\ (cpre (Zl a) v = true \/ P v = true).
Proof.
  unfold Xr. cbn [it]. unfold GR1Spec.rX_op at 1. unfold ins, gk.
  rewrite !band_spec, !bor_spec, !andb_true_iff, !orb_true_iff. tauto.
Qed.

Lemma Xr_in_muX a P R r : le (Xr a P R r) (muX a P R).
Proof.
  apply it_below; [apply rX_op_mono|apply rX_is_lfp].
Qed.

(* a member of an inner attractor has a rank *)
Lemma muX_rank a P R v :
  inr v -> muX a P R v = true -> exists r, r <= NV /\ Xr a P R (Datatypes.S r) v = true.
Proof.
  intros Hv H.
  apply (lfp_in_iterate nc nx ny (rX_op R (ins a P)) (muX a P R) v); try assumption.
  - apply rX_op_mono.
  - apply rX_is_lfp.
Qed.

End RabinStruct.
