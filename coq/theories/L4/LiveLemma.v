(* L4 / LiveLemma: the combinatorial core of GR(1) strategy liveness, free of
   games.  A goal counter c, three kinds of steps (switch / descend / stay)
   and a rank that strictly decreases on descents and never increases on
   stays: either from some point on only stays occur at a constant rank, or
   every counter value is switched from infinitely often.

   Uses excluded middle (Classical_Prop.classic, a standard-library axiom):
   the two alternatives concern infinite behaviours. *)
From Coq Require Import Arith Lia Classical_Prop Classical_Pred_Type Wf_nat.

Section LiveLemma.
Variable n : nat.
Hypothesis Hn : 0 < n.
Variable c : nat -> nat.
Hypothesis Hc : forall i, c i < n.
Variables Sw Ds St : nat -> Prop.
Hypothesis Hkinds : forall i, Sw i \/ Ds i \/ St i.
Hypothesis Hsw : forall i, Sw i -> c (S i) = (c i + 1) mod n.
Hypothesis Hds : forall i, Ds i -> c (S i) = c i.
Hypothesis Hst : forall i, St i -> c (S i) = c i.
Variable m : nat -> nat -> nat.      (* m j i : rank for goal j at position i *)
Hypothesis Hds_m : forall i, Ds i -> m (c i) (S i) < m (c i) i.
Hypothesis Hst_m : forall i, St i -> m (c i) (S i) <= m (c i) i.

Lemma eventually_constant (f : nat -> nat) N :
  (forall i, N <= i -> f (S i) <= f i) ->
  exists N1, N <= N1 /\ forall i, N1 <= i -> f i = f N1.
Proof.
  remember (f N) as k eqn:Ek. revert N Ek.
  induction k as [k IH] using lt_wf_ind. intros N Ek Hmono.
  assert (Hle : forall i, N <= i -> f i <= f N).
  { intros i Hi. induction Hi as [|i Hi IHi]; [lia|]. specialize (Hmono i Hi). lia. }
  destruct (classic (exists i, N <= i /\ f i < f N)) as [[i [Hi Hlt]]|Hno].
  - destruct (IH (f i) ltac:(lia) i eq_refl) as [N1 [HN1 Hc1]].
    + intros t Ht. apply Hmono. lia.
    + exists N1. split; [lia|exact Hc1].
  - exists N. split; [lia|]. intros i Hi.
    destruct (Nat.lt_ge_cases (f i) (f N)) as [Hlt|Hge].
    + exfalso. apply Hno. exists i. auto.
    + specialize (Hle i Hi). lia.
Qed.

Lemma least_switch N :
  (exists i, N <= i /\ Sw i) ->
  exists i, N <= i /\ Sw i /\ forall t, N <= t < i -> ~ Sw t.
Proof.
  intros Hex.
  destruct (dec_inh_nat_subset_has_unique_least_element (fun i => N <= i /\ Sw i)) as [i [[Hi Hleast] _]].
  - intros k. apply classic.
  - exact Hex.
  - destruct Hi as [Hi1 Hi2]. exists i. split; [exact Hi1|]. split; [exact Hi2|].
    intros t [Ht1 Ht2] Hsw_t. specialize (Hleast t (conj Ht1 Hsw_t)). lia.
Qed.

Lemma counter_const N i :
  N <= i -> (forall t, N <= t < i -> ~ Sw t) -> c i = c N.
Proof.
  intros Hi. induction Hi as [|i Hi IH]; intros Hno; [reflexivity|].
  rewrite <- IH by (intros t Ht; apply Hno; lia).
  destruct (Hkinds i) as [H|[H|H]]; [exfalso; apply (Hno i); [lia|exact H]|apply Hds, H|apply Hst, H].
Qed.

(* infinitely many switches: every counter value is switched from again and again *)
Lemma switches_cover :
  (forall N, exists i, N <= i /\ Sw i) ->
  forall j, j < n -> forall N, exists i, N <= i /\ Sw i /\ c i = j.
Proof.
  intros Hinf j Hj.
  assert (Hgen : forall d N, (j + n - c N) mod n = d -> exists i, N <= i /\ Sw i /\ c i = j).
  { induction d as [|d IH]; intros N Hd.
    - destruct (least_switch N (Hinf N)) as [i [Hi [Hs Hno]]].
      exists i. split; [exact Hi|]. split; [exact Hs|].
      rewrite (counter_const N i Hi Hno). pose proof (Hc N) as HcN.
      assert (j + n - c N = j - c N + n \/ j + n - c N = n - (c N - j)) by lia.
      destruct (Nat.lt_ge_cases j (c N)) as [Hlt|Hge].
      + replace (j + n - c N) with (n - (c N - j)) in Hd by lia.
        rewrite Nat.mod_small in Hd by lia. lia.
      + replace (j + n - c N) with ((j - c N) + 1 * n) in Hd by lia.
        rewrite Nat.mod_add in Hd by lia. rewrite Nat.mod_small in Hd by lia. lia.
    - destruct (least_switch N (Hinf N)) as [i [Hi [Hs Hno]]].
      pose proof (counter_const N i Hi Hno) as Hci. pose proof (Hc N) as HcN.
      destruct (IH (S i)) as [i' [Hi' [Hs' Hc']]].
      + rewrite (Hsw i Hs), Hci.
        (* distance decreases by one *)
        destruct (Nat.lt_ge_cases j (c N)) as [Hlt|Hge].
        * replace (j + n - c N) with (n - (c N - j)) in Hd by lia.
          rewrite Nat.mod_small in Hd by lia.
          destruct (Nat.eq_dec (c N + 1) n) as [He|Hne].
          -- rewrite He, Nat.mod_same by lia.
             replace (j + n - 0) with (j + 1 * n) by lia.
             rewrite Nat.mod_add by lia. rewrite Nat.mod_small by lia. lia.
          -- rewrite (Nat.mod_small (c N + 1)) by lia.
             replace (j + n - (c N + 1)) with (n - (c N + 1 - j)) by lia.
             rewrite Nat.mod_small by lia. lia.
        * replace (j + n - c N) with ((j - c N) + 1 * n) in Hd by lia.
          rewrite Nat.mod_add in Hd by lia. rewrite Nat.mod_small in Hd by lia.
          rewrite (Nat.mod_small (c N + 1)) by lia.
          replace (j + n - (c N + 1)) with ((j - (c N + 1)) + 1 * n) by lia.
          rewrite Nat.mod_add by lia. rewrite Nat.mod_small by lia. lia.
      + exists i'. split; [lia|]. auto. }
  intros N. apply (Hgen ((j + n - c N) mod n) N eq_refl).
Qed.

(* finitely many switches: eventually only stays, at a constant rank *)
Lemma eventually_stays N :
  (forall i, N <= i -> ~ Sw i) ->
  exists N1, N <= N1 /\ forall i, N1 <= i -> St i /\ c i = c N /\ m (c N) i = m (c N) N1.
Proof.
  intros Hno.
  assert (Hcc : forall i, N <= i -> c i = c N).
  { intros i Hi. apply counter_const; [exact Hi|]. intros t Ht. apply Hno. lia. }
  destruct (eventually_constant (fun i => m (c N) i) N) as [N1 [HN1 Hconst]].
  - intros i Hi. destruct (Hkinds i) as [H|[H|H]]; [exfalso; apply (Hno i Hi H)| |].
    + pose proof (Hds_m i H). rewrite (Hcc i Hi) in *. lia.
    + pose proof (Hst_m i H). rewrite (Hcc i Hi) in *. lia.
  - exists N1. split; [exact HN1|]. intros i Hi. split; [|split; [apply Hcc; lia|apply Hconst, Hi]].
    destruct (Hkinds i) as [H|[H|H]]; [exfalso; apply (Hno i); [lia|exact H]| |exact H].
    exfalso. pose proof (Hds_m i H) as Hlt. rewrite (Hcc i ltac:(lia)) in Hlt.
    rewrite (Hconst i Hi), (Hconst (S i) ltac:(lia)) in Hlt. lia.
Qed.

Theorem live_dichotomy :
  (exists N N1, N <= N1 /\ forall i, N1 <= i -> St i /\ c i = c N /\ m (c N) i = m (c N) N1) \/
  (forall j, j < n -> forall N, exists i, N <= i /\ Sw i /\ c i = j).
Proof.
  destruct (classic (forall N, exists i, N <= i /\ Sw i)) as [Hinf|Hfin].
  - right. apply switches_cover, Hinf.
  - left. apply not_all_ex_not in Hfin. destruct Hfin as [N HN].
    assert (Hno : forall i, N <= i -> ~ Sw i).
    { intros i Hi Hs. apply HN. exists i. auto. }
    destruct (eventually_stays N Hno) as [N1 [HN1 H1]]. exists N, N1. auto.
Qed.

End LiveLemma.
