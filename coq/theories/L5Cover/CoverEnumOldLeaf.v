(* L5Cover / CoverEnumOldLeaf: cover_enum._cyclic_core_fixpoint_recursive /
   _traverse_exhaustive BEFORE the repair fixes/F17.patch (finding F17), kept
   for the regression example (CoverEnumRefutedTotal.v, Properties/C10.v
   C10_refuted_total_xy).

   Difference with CoverEnum.ccfr: at a leaf (empty cyclic core) the
   unrepaired code sets bab.upper_bound = branch_lb and returns the leaf also
   when branch_lb exceeds bab.upper_bound.  A node inside a sub-optimal
   branch can then return covers that are not minimal for that node, and
   lifting them (_mincovers_from_unfloor) can fail the cardinality assertion
   of _enumerate_mincovers_unfloor.

   Model file: definitions only. *)
From Coq Require Import List ZArith Bool Lia Arith.
Import ListNotations.
From Omega Require Import L5Cover.Boxes L5Cover.MinCover L5Cover.CoverEnum.
Open Scope Z_scope.

Section EnumOldLeaf.
Variable rs : ranges.
Variable pick : list box -> option box.

(* _cyclic_core_fixpoint_recursive with _traverse_exhaustive and
   _branch_exhaustive inlined; bab.upper_bound is threaded through *)
Fixpoint ccfr_oldleaf (fuel : nat) (X Y : list box) (pc ub : nat)
  : res (family * nat) :=
  match fuel with
  | O => fail EFuel
  | S n =>
      check (cover_refines X Y)
      (let xt := max_ceilings rs X Y in
       let yt := max_floors rs xt Y in
       let yfl := dedup (map (floor rs xt) Y) in
       let e := inter xt yt in
       let x := diff xt e in
       let y := diff yt e in
       let npc := (pc + length e)%nat in
       let core_res : res (family * nat) :=
         if (if (if same_setb x X then same_setb y Y else false) then true
             else is_nil x)
         then
           (* _traverse_exhaustive *)
           let core_lb := indep_size pick (S (length x)) x y in
           let blb := (npc + core_lb)%nat in
           match x with
           | [] => check (is_nil y) (check (Nat.eqb core_lb 0) (ok ([[]], blb)))
           | _ =>
               if (ub <? blb)%nat then ok ([], ub)
               else
                 (* _branch_exhaustive *)
                 match pick y with
                 | None => fail EAssert
                 | Some d =>
                     let ynew := diff y [d] in
                     let xm := filter (fun p => negb (box_leb p d)) x in
                     check (negb (Nat.eqb (length xm) (length x)))
                       (bind (ccfr_oldleaf n xm ynew (S npc) ub) (fun l =>
                          let L := map (fun c => union c [d]) (fst l) in
                          bind (ccfr_oldleaf n x ynew npc (snd l)) (fun r =>
                            let R := fst r in
                            match L, R with
                            | [], _ => ok (R, snd r)
                            | _, [] => ok (L, snd r)
                            | l0 :: _, r0 :: _ =>
                                if (length l0 <? length r0)%nat then ok (L, snd r)
                                else if (length r0 <? length l0)%nat then ok (R, snd r)
                                else ok (union_fam L R, snd r)
                            end)))
                 end
           end
         else ccfr_oldleaf n x y npc ub in
       do cr <- core_res ;;
         match fst cr with
         | [] => ok ([], snd cr)
         | _ =>
             chk (if is_nil e then negb (is_nil y) else true) ;;
             chk covers_from (fst cr) yfl ;;
             let core := union_fam [] (map (fun c => union c e) (fst cr)) in
             chk allb (fun c => negb (is_nil c)) core ;;
             chk inclb yt yfl ;;
             chk inclb e yfl ;;
             chk are_covers xt core ;;
             chk covers_from core yt ;;
             chk uniform core ;;
             do fl <- from_floor core xt yfl ;;
             chk negb (is_nil fl) ;;
             chk are_covers xt fl ;;
             chk covers_from fl yfl ;;
             chk uniform fl ;;
             do mc <- from_unfloor fl Y ;;
             chk negb (is_nil mc) ;;
             chk are_covers X mc ;;
             chk covers_from mc Y ;;
             chk uniform mc ;;
             ok (mc, snd cr)
         end)
  end.

(* cover_enum.minimize on the covering problem (X, Y) *)
Definition enum_xy_oldleaf (X Y : list box) : res family :=
  match some_cover pick (S (length X)) X Y with
  | None => fail EAssert
  | Some c0 =>
      bind (ccfr_oldleaf (2 * (length X + length Y) + 4) X Y 0 (length c0)) (fun r =>
        check (negb (is_nil (fst r))) (ok (fst r)))
  end.
End EnumOldLeaf.
