(* The functions of omega/symbolic/cover.py BELOW the branch-and-bound
   skeleton, TRANSLATED on every run by tools/vlib/cover_ccgen.py
   (gen/CoverCCGen.v, tie T):

     _max_transpose, _cyclic_core_fixpoint, cyclic_core,
     _independent_set, _lower_bound, _some_cover, _upper_bound, unfloors

   are the hand-written model L5Cover/MinCover.v (max_ceilings / max_floors,
   cc_loop / cyclic_core / cyclic_core_fc, indep_size, some_cover, unfloors)
   that the C09 and C10 theorems -- and the primitives of the translated
   skeleton (GenProofs/CoverBBBridge.v) -- talk about.

   Equalities for ALL inputs: every fuel, all lists, every [pick] (also a
   [pick] that returns None on a non-empty set or an element outside it),
   with two qualifications that are part of the statements:
   - the code loops `while ...` and the model recurses on a fuel: one unit
     of fuel of the translated loop is spent on the final test, hence
     [S fuel] on the left;
   - the model's [indep_size] returns a number where the code would fail
     (pick of an empty set, variant assertion): the translated function
     returns None there, and [indep_ok] says exactly when;
   - the only statement with a hypothesis on pick is the cover RETURNED by
     _some_cover(only_size=False): the code accumulates it with the set
     union `z |= {y0}` while the model conses; they agree when pick returns
     elements of its argument (the y0 are then pairwise distinct), which is
     what the assertion `k == k_` of the code re-checks.

   A change of cover.py that alters a translated term (the order of the two
   _max_transpose calls, a dropped `y = y & ~ e`, `rem &= r`, another
   only_size flag, a dropped `r &= p_leq_q`, ...) breaks these lemmas on
   every run, independently of the sampled inputs. *)
From Coq Require Import List ZArith Bool Arith Lia.
Import ListNotations.
From Omega Require Import L5Cover.Boxes L5Cover.BoxesProofs L5Cover.MinCover
  L5Cover.MinCoverProofs L5Cover.CoverEnum L5Cover.CyclicCoreOpt
  L5Cover.CyclicCoreTotal L5Cover.MinCoverTotal.
From OmegaGen Require Import CoverCCGen.

(* ------------------------------------------------------------ list facts *)
Lemma anyb_filter {A} (f g : A -> bool) l :
  anyb f (filter g l) = anyb (fun q => if g q then f q else false) l.
Proof.
  induction l as [|a l IH]; [reflexivity|]. cbn [filter anyb].
  destruct (g a); cbn [anyb]; rewrite IH; reflexivity.
Qed.

Lemma filter_ext_eq {A} (f g : A -> bool) l :
  (forall a, f a = g a) -> filter f l = filter g l.
Proof. intros H. induction l as [|a l IH]; cbn; [reflexivity|]. rewrite H, IH. reflexivity. Qed.

Lemma mem_box_app l1 l2 b : mem_box (l1 ++ l2) b = (mem_box l1 b || mem_box l2 b)%bool.
Proof.
  unfold mem_box. induction l1 as [|a l1 IH]; [reflexivity|]. cbn [app anyb].
  destruct (box_eqb b a); [reflexivity | exact IH].
Qed.

Lemma mem_box_single d b : mem_box [d] b = box_eqb b d.
Proof. unfold mem_box. cbn. destruct (box_eqb b d); reflexivity. Qed.

Lemma union_single_new A d : mem_box A d = false -> union A [d] = A ++ [d].
Proof. intros H. unfold union, diff. cbn [filter]. rewrite H. reflexivity. Qed.

Lemma union_single_old A d : mem_box A d = true -> union A [d] = A.
Proof. intros H. unfold union, diff. cbn [filter]. rewrite H. cbn. apply app_nil_r. Qed.

Lemma diff_diff_single K A d : diff (diff K [d]) A = diff K (A ++ [d]).
Proof.
  unfold diff. induction K as [|a K IH]; [reflexivity|]. cbn [filter].
  rewrite mem_box_app, mem_box_single.
  destruct (box_eqb a d); cbn [negb filter].
  - rewrite orb_true_r. cbn [negb]. exact IH.
  - rewrite orb_false_r. destruct (mem_box A a); cbn [negb]; rewrite IH; reflexivity.
Qed.

Lemma diff_app_old K A d : mem_box A d = true -> diff K (A ++ [d]) = diff K A.
Proof.
  intros H. unfold diff. apply filter_ext_eq. intros a.
  rewrite mem_box_app, mem_box_single.
  destruct (box_eqb a d) eqn:E; [|rewrite orb_false_r; reflexivity].
  apply box_eqb_true in E. subst a. rewrite H. reflexivity.
Qed.

Section Bridge.
Variable rs : ranges.
Variable pick : list box -> option box.

(* ---------------------------------------------------- cover._max_transpose *)
Theorem max_transpose_gen_signatures : forall X Y,
  max_transpose_gen rs X Y true = max_ceilings rs X Y.
Proof. reflexivity. Qed.

Theorem max_transpose_gen_primes : forall X Y,
  max_transpose_gen rs X Y false = max_floors rs X Y.
Proof. reflexivity. Qed.

(* --------------------------------------------- cover._cyclic_core_fixpoint *)
(* the loop test `x != xold or y != yold` *)
Definition changed (x y : list box) (xo yo : option (list box)) : bool :=
  if negb (set_eq_opt x xo) then true else negb (set_eq_opt y yo).

Definition proj5 (s : list box * list box * list box
                      * option (list box) * option (list box)) :=
  let '(x, y, e, _, _) := s in (x, y, e).

Lemma ccf_loop_S fuel X Y E xo yo :
  cyclic_core_fixpoint_loop rs (S fuel) X Y E xo yo =
  if changed X Y xo yo then
    let X1 := max_ceilings rs X Y in
    let e := inter X1 Y in
    let X2 := diff X1 e in
    let Y1 := diff Y e in
    let E' := union E e in
    let Y2 := max_floors rs X2 Y1 in
    cyclic_core_fixpoint_loop rs fuel X2 Y2 E' (Some X) (Some Y)
  else Some (X, Y, E, xo, yo).
Proof. reflexivity. Qed.

Lemma ccf_loop_is_cc_loop : forall fuel X Y E xo yo,
  changed X Y xo yo = true ->
  option_map proj5 (cyclic_core_fixpoint_loop rs (S fuel) X Y E xo yo) =
  cc_loop rs fuel X Y E.
Proof.
  induction fuel as [|n IH]; intros X Y E xo yo H; rewrite ccf_loop_S, H; cbv zeta.
  - reflexivity.
  - cbn [cc_loop]. cbv zeta.
    set (X1 := max_ceilings rs X Y). set (e := inter X1 Y).
    set (X2 := diff X1 e). set (Y1 := diff Y e). set (E' := union E e).
    set (Y2 := max_floors rs X2 Y1).
    destruct (changed X2 Y2 (Some X) (Some Y)) eqn:C.
    + rewrite (IH X2 Y2 E' (Some X) (Some Y) C).
      unfold changed, set_eq_opt in C.
      destruct (same_setb X2 X); [destruct (same_setb Y2 Y); [discriminate|]|]; reflexivity.
    + rewrite ccf_loop_S, C. cbn [option_map proj5].
      unfold changed, set_eq_opt in C.
      destruct (same_setb X2 X); [destruct (same_setb Y2 Y); [reflexivity|]|]; discriminate.
Qed.

(* the translated fixpoint is the model's loop, for every fuel *)
Theorem cyclic_core_fixpoint_gen_is_cc_loop : forall fuel X Y,
  cyclic_core_fixpoint_gen rs (S fuel) X Y = cc_loop rs fuel X Y [].
Proof.
  intros fuel X Y. rewrite <- (ccf_loop_is_cc_loop fuel X Y [] None None eq_refl).
  unfold cyclic_core_fixpoint_gen. cbv zeta.
  destruct (cyclic_core_fixpoint_loop rs (S fuel) X Y [] None None)
    as [[[[[x y] e] xo] yo]|]; reflexivity.
Qed.

Theorem cyclic_core_fixpoint_gen_is_model : forall X Y,
  cyclic_core_fixpoint_gen rs (S (cc_fuel X Y)) X Y = cyclic_core rs X Y.
Proof. intros. apply cyclic_core_fixpoint_gen_is_cc_loop. Qed.

(* cover.cyclic_core(f, care, fol) *)
Theorem cyclic_core_gen_is_model : forall f care,
  cyclic_core_gen rs (S (cc_fuel (embed rs f) (primes rs f care))) f care =
  cyclic_core_fc rs f care.
Proof.
  intros f care. unfold cyclic_core_gen, cyclic_core_fc. cbv zeta.
  rewrite cyclic_core_fixpoint_gen_is_model.
  destruct (cyclic_core rs (embed rs f) (primes rs f care)) as [[[x y] e]|]; reflexivity.
Qed.

(* the fuel is not an artefact: more fuel does not change a result ... *)
Lemma cc_loop_more_fuel : forall n X Y E r,
  cc_loop rs n X Y E = Some r -> forall m, (n <= m)%nat -> cc_loop rs m X Y E = Some r.
Proof.
  induction n as [|n IH]; intros X Y E r H m Hm; [discriminate|].
  destruct m as [|m]; [lia|]. cbn [cc_loop] in *. cbv zeta in *.
  destruct (if same_setb _ X then same_setb _ Y else false); [exact H|].
  apply (IH _ _ _ _ H). lia.
Qed.

(* ... so whenever the translated loop ends, with whatever fuel, on a
   problem inside the lattice, it returns what the model's cyclic_core
   returns (whose own fuel is proved sufficient: C09_cyclic_core_terminates) *)
Theorem cyclic_core_fixpoint_gen_any_fuel : forall fuel X Y r,
  below_top rs X -> above_bot rs Y ->
  cyclic_core_fixpoint_gen rs fuel X Y = Some r -> cyclic_core rs X Y = Some r.
Proof.
  intros fuel X Y r HX HY H.
  destruct fuel as [|n]; [discriminate|].
  rewrite cyclic_core_fixpoint_gen_is_cc_loop in H.
  destruct (cyclic_core_total rs X Y HX HY) as [r' Hr'].
  unfold cyclic_core in *.
  destruct (Nat.le_ge_cases n (cc_fuel X Y)) as [L|L].
  - apply (cc_loop_more_fuel _ _ _ _ _ H), L.
  - rewrite Hr'. rewrite (cc_loop_more_fuel _ _ _ _ _ Hr' n L) in H. exact H.
Qed.

(* ------------------------------------- cover._independent_set, _lower_bound *)
(* where the code would fail (the model's indep_size returns a number
   anyway): pick of ... returns None, or the fuel (the variant) runs out *)
Fixpoint indep_ok (fuel : nat) (rem Y : list box) : bool :=
  match rem with
  | [] => true
  | _ =>
      match fuel with
      | O => false
      | S n =>
          match pick rem with
          | None => false
          | Some x0 =>
              indep_ok n
                (filter (fun p => negb (anyb (fun q =>
                   if box_leb x0 q then box_leb p q else false) Y)) rem) Y
          end
      end
  end.

Lemma isl_S fuel os Y rem z k :
  independent_set_loop pick (S fuel) os Y rem z k =
  match rem with
  | [] => Some (rem, z, k)
  | _ =>
      match pick rem with
      | None => None
      | Some x0 =>
          independent_set_loop pick fuel os Y
            (filter (fun p => negb (anyb (fun q => box_leb p q)
                                         (filter (box_leb x0) Y))) rem)
            (if negb os then union z [x0] else z) (k + 1)%nat
      end
  end.
Proof. destruct rem; reflexivity. Qed.

Lemma umbrella_eq x0 Y rem :
  filter (fun p => negb (anyb (fun q => box_leb p q) (filter (box_leb x0) Y))) rem =
  filter (fun p => negb (anyb (fun q => if box_leb x0 q then box_leb p q else false) Y)) rem.
Proof. apply filter_ext_eq. intros p. rewrite anyb_filter. reflexivity. Qed.

Lemma isl_size : forall fuel os Y rem z k,
  option_map snd (independent_set_loop pick (S fuel) os Y rem z k) =
  if indep_ok fuel rem Y then Some (k + indep_size pick fuel rem Y)%nat else None.
Proof.
  induction fuel as [|n IH]; intros os Y rem z k; rewrite isl_S;
    destruct rem as [|r0 rem'].
  - cbn. rewrite Nat.add_0_r. reflexivity.
  - cbn [indep_ok]. destruct (pick (r0 :: rem')); reflexivity.
  - cbn. rewrite Nat.add_0_r. reflexivity.
  - cbn [indep_ok indep_size]. destruct (pick (r0 :: rem')) as [x0|]; [|reflexivity].
    rewrite IH, umbrella_eq.
    destruct (indep_ok n _ Y); [|reflexivity]. f_equal. lia.
Qed.

(* the size returned by the translated _independent_set, for both values
   of only_size, is the model's indep_size *)
Theorem independent_set_gen_size : forall fuel X Y os,
  option_map snd (independent_set_gen pick (S fuel) X Y os) =
  if indep_ok fuel X Y then Some (indep_size pick fuel X Y) else None.
Proof.
  intros fuel X Y os. unfold independent_set_gen. cbv zeta.
  pose proof (isl_size fuel os Y X [] 0%nat) as H. cbn [Nat.add] in H. rewrite <- H.
  destruct (independent_set_loop pick (S fuel) os Y X [] 0%nat) as [[[r z] k]|];
    [|reflexivity].
  destruct os; reflexivity.
Qed.

Theorem independent_set_gen_only_size : forall fuel X Y,
  independent_set_gen pick (S fuel) X Y true =
  if indep_ok fuel X Y then Some (None, indep_size pick fuel X Y) else None.
Proof.
  intros fuel X Y. unfold independent_set_gen. cbv zeta.
  pose proof (isl_size fuel true Y X [] 0%nat) as H. cbn [Nat.add] in H.
  destruct (independent_set_loop pick (S fuel) true Y X [] 0%nat) as [[[r z] k]|];
    destruct (indep_ok fuel X Y); cbn [option_map snd] in H;
    try discriminate; [|reflexivity].
  injection H as ->. reflexivity.
Qed.

(* cover._lower_bound: _independent_set with only_size=True *)
Theorem lower_bound_gen_is_model : forall fuel X Y,
  lower_bound_gen pick (S fuel) X Y =
  if indep_ok fuel X Y then Some (indep_size pick fuel X Y) else None.
Proof.
  intros fuel X Y. unfold lower_bound_gen. rewrite independent_set_gen_only_size.
  destruct (indep_ok fuel X Y); reflexivity.
Qed.

(* --------------------------------------- cover._some_cover, _upper_bound *)
Lemma scl_S fuel os Y rem z k :
  some_cover_loop pick (S fuel) os Y rem z k =
  match rem with
  | [] => Some (rem, z, k)
  | _ =>
      match pick rem with
      | None => None
      | Some x0 =>
          match pick (those_over Y x0) with
          | None => None
          | Some y0 =>
              some_cover_loop pick fuel os Y
                (filter (fun p => negb (box_leb p y0)) rem)
                (if negb os then union z [y0] else z) (k + 1)%nat
          end
      end
  end.
Proof. destruct rem; reflexivity. Qed.

(* only_size=True: z is not touched; all picks *)
Lemma scl_only_size : forall fuel Y rem z k,
  some_cover_loop pick (S fuel) true Y rem z k =
  option_map (fun c => ([], z, (k + length c)%nat)) (some_cover pick fuel rem Y).
Proof.
  induction fuel as [|n IH]; intros Y rem z k; rewrite scl_S;
    destruct rem as [|r0 rem'].
  - cbn. rewrite Nat.add_0_r. reflexivity.
  - cbn [some_cover]. destruct (pick (r0 :: rem')); [|reflexivity].
    destruct (pick (those_over Y _)); reflexivity.
  - cbn. rewrite Nat.add_0_r. reflexivity.
  - cbn [some_cover negb]. destruct (pick (r0 :: rem')) as [x0|]; [|reflexivity].
    destruct (pick (those_over Y x0)) as [y0|]; [|reflexivity].
    rewrite IH. destruct (some_cover pick n _ Y) as [c|]; [|reflexivity].
    cbn [option_map length]. do 2 f_equal. lia.
Qed.

Theorem some_cover_gen_only_size : forall fuel X Y,
  some_cover_gen pick (S fuel) X Y true =
  option_map (fun c => (None, length c)) (some_cover pick fuel X Y).
Proof.
  intros fuel X Y. unfold some_cover_gen. cbv zeta. rewrite scl_only_size.
  destruct (some_cover pick fuel X Y); reflexivity.
Qed.

(* cover._upper_bound: _some_cover with only_size=True *)
Theorem upper_bound_gen_is_model : forall fuel X Y,
  upper_bound_gen pick (S fuel) X Y =
  option_map (@length box) (some_cover pick fuel X Y).
Proof.
  intros fuel X Y. unfold upper_bound_gen. rewrite some_cover_gen_only_size.
  destruct (some_cover pick fuel X Y); reflexivity.
Qed.

(* only_size=False: the cover itself *)
Section PickOk.
Hypothesis pick_ok : forall s b, pick s = Some b -> In b s.

(* no remaining element lies under an element already chosen *)
Definition fresh_inv (z rem : list box) : Prop :=
  forall y, In y z -> forall p, In p rem -> box_leb p y = false.

Lemma scl_cover : forall fuel Y rem z k,
  fresh_inv z rem ->
  some_cover_loop pick (S fuel) false Y rem z k =
  option_map (fun c => ([], z ++ c, (k + length c)%nat)) (some_cover pick fuel rem Y).
Proof.
  induction fuel as [|n IH]; intros Y rem z k Hinv; rewrite scl_S;
    destruct rem as [|r0 rem'].
  - cbn. rewrite Nat.add_0_r, app_nil_r. reflexivity.
  - cbn [some_cover]. destruct (pick (r0 :: rem')); [|reflexivity].
    destruct (pick (those_over Y _)); reflexivity.
  - cbn. rewrite Nat.add_0_r, app_nil_r. reflexivity.
  - cbn [some_cover negb]. remember (r0 :: rem') as rem eqn:Er.
    destruct (pick rem) as [x0|] eqn:Ex; [|reflexivity].
    destruct (pick (those_over Y x0)) as [y0|] eqn:Ey; [|reflexivity].
    apply pick_ok in Ex. apply pick_ok in Ey.
    unfold those_over in Ey. apply filter_In in Ey. destruct Ey as [_ Hle].
    assert (Hnew : mem_box z y0 = false).
    { destruct (mem_box z y0) eqn:M; [|reflexivity].
      apply mem_box_true in M. rewrite (Hinv y0 M x0 Ex) in Hle. discriminate. }
    rewrite (union_single_new _ _ Hnew). rewrite IH.
    + destruct (some_cover pick n _ Y) as [c|]; [|reflexivity].
      cbn [option_map length]. rewrite <- app_assoc. cbn [app]. do 2 f_equal. lia.
    + intros y Hy p Hp. apply filter_In in Hp. destruct Hp as [Hp Hnp].
      apply in_app_or in Hy. destruct Hy as [Hy|[<-|[]]].
      * apply (Hinv y Hy p Hp).
      * apply negb_true_iff in Hnp. exact Hnp.
Qed.

Theorem some_cover_gen_cover_is_model : forall fuel X Y,
  some_cover_gen pick (S fuel) X Y false =
  option_map (fun c => (Some c, length c)) (some_cover pick fuel X Y).
Proof.
  intros fuel X Y. unfold some_cover_gen. cbv zeta. rewrite scl_cover.
  - destruct (some_cover pick fuel X Y); reflexivity.
  - intros y [].
Qed.

(* when the fuel suffices (feasible problem, total pick): the values the
   translated skeleton (CoverBBBridge) uses as primitives *)
Hypothesis pick_total : forall s, pick s = None -> s = [].

Lemma indep_ok_total : forall fuel rem Y,
  cov Y rem -> (length rem < fuel)%nat -> indep_ok fuel rem Y = true.
Proof.
  induction fuel as [|n IH]; intros rem Y Hcov Hn; [lia|].
  destruct rem as [|r0 rem']; [reflexivity|].
  remember (r0 :: rem') as rem eqn:Er.
  assert (E : indep_ok (S n) rem Y =
    match pick rem with
    | None => false
    | Some x0 =>
        indep_ok n (filter (fun p => negb (anyb (fun q =>
          if box_leb x0 q then box_leb p q else false) Y)) rem) Y
    end) by (rewrite Er; reflexivity).
  rewrite E. clear E.
  destruct (pick rem) as [x0|] eqn:Ex.
  2:{ apply pick_total in Ex. rewrite Ex in Er. discriminate. }
  apply pick_ok in Ex. apply IH.
  - intros x Hx. apply filter_In in Hx. apply Hcov, Hx.
  - set (u := fun p => negb (anyb (fun q =>
          if box_leb x0 q then box_leb p q else false) Y)).
    assert (L : (length (filter u rem) < length rem)%nat).
    { pose proof (filter_length_lt u (fun _ => true) rem (fun _ _ _ => eq_refl)) as H.
      rewrite (filter_all_true (fun _ => true) rem (fun _ _ => eq_refl)) in H. apply H.
      exists x0. split; [exact Ex|]. split; [|reflexivity].
      destruct (Hcov x0 Ex) as [y [Hy Hle]]. apply box_leb_true in Hle.
      unfold u. apply negb_false_iff. rewrite anyb_existsb. apply existsb_exists.
      exists y. split; [exact Hy|]. rewrite Hle. reflexivity. }
    lia.
Qed.

Theorem lower_bound_gen_total : forall X Y,
  cov Y X ->
  lower_bound_gen pick (S (S (length X))) X Y =
  Some (indep_size pick (S (length X)) X Y).
Proof.
  intros X Y H. rewrite lower_bound_gen_is_model, indep_ok_total; [reflexivity|exact H|lia].
Qed.

Theorem upper_bound_gen_total : forall X Y,
  cov Y X ->
  exists c, some_cover pick (S (length X)) X Y = Some c /\
            upper_bound_gen pick (S (S (length X))) X Y = Some (length c).
Proof.
  intros X Y H.
  destruct (some_cover_total pick pick_ok pick_total (S (length X)) X Y H) as [c Ec]; [lia|].
  exists c. split; [exact Ec|]. rewrite upper_bound_gen_is_model, Ec. reflexivity.
Qed.
End PickOk.

(* ------------------------------------------------------- cover.unfloors *)
Lemma unfloors_loop_is_model Y : forall C acc,
  unfloors_loop pick C Y acc =
  option_map (fun K => acc ++ diff K acc) (unfloors pick C Y).
Proof.
  induction C as [|z C IH]; intros acc.
  - cbn. rewrite app_nil_r. reflexivity.
  - cbn [unfloors_loop unfloors].
    change (filter (fun q_ => box_leb z q_) Y) with (those_over Y z).
    destruct (pick (those_over Y z)) as [dy|]; [|reflexivity]. cbv zeta.
    rewrite IH. destruct (unfloors pick C Y) as [K|]; [|reflexivity].
    cbn [option_map]. f_equal.
    assert (U : union [dy] K = dy :: diff K [dy]) by reflexivity.
    assert (D : diff (dy :: diff K [dy]) acc =
                if negb (mem_box acc dy) then dy :: diff (diff K [dy]) acc
                else diff (diff K [dy]) acc) by reflexivity.
    rewrite U, D, diff_diff_single.
    destruct (mem_box acc dy) eqn:M; cbn [negb].
    + rewrite (union_single_old _ _ M), (diff_app_old _ _ _ M). reflexivity.
    + rewrite (union_single_new _ _ M), <- app_assoc. reflexivity.
Qed.

(* all picks, Leibniz: both keep the first occurrence of every chosen y *)
Theorem unfloors_gen_is_model : forall C Y,
  unfloors_gen pick C Y = unfloors pick C Y.
Proof.
  intros C Y. unfold unfloors_gen. cbv zeta. rewrite unfloors_loop_is_model.
  destruct (unfloors pick C Y) as [K|]; [|reflexivity].
  cbn [option_map app]. rewrite diff_nil_r. reflexivity.
Qed.
End Bridge.

Print Assumptions max_transpose_gen_signatures.
Print Assumptions max_transpose_gen_primes.
Print Assumptions cyclic_core_fixpoint_gen_is_cc_loop.
Print Assumptions cyclic_core_fixpoint_gen_is_model.
Print Assumptions cyclic_core_gen_is_model.
Print Assumptions cyclic_core_fixpoint_gen_any_fuel.
Print Assumptions independent_set_gen_size.
Print Assumptions independent_set_gen_only_size.
Print Assumptions lower_bound_gen_is_model.
Print Assumptions some_cover_gen_only_size.
Print Assumptions upper_bound_gen_is_model.
Print Assumptions some_cover_gen_cover_is_model.
Print Assumptions lower_bound_gen_total.
Print Assumptions upper_bound_gen_total.
Print Assumptions unfloors_gen_is_model.
