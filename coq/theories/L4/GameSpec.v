(* L4 / GameSpec: set-level specification of the controllable predecessor
   (the four modes) and its monotonicity. *)
From Coq Require Import List Bool Arith Lia.
Import ListNotations.
From Omega Require Import L4.Arena L4.ArenaFacts L4.Kleene.

Section GameSpec.
Variables nc nx ny : nat.
Variables moore plus_one : bool.

(* the stepwise implication at state v for the choice (x', y') *)
Definition phi (E S T : bdd) (v : V) (x' y' : nat) : bool :=
  let w := mkV (vc v) (vx v) (vy v) x' y' in
  let t' := T (mkV (vc v) x' y' x' y') in
  if plus_one then S w && (negb (E w) || t')
  else negb (E w) || (S w && t').

(* Moore: the component chooses y' before seeing x'; Mealy: after. *)
Definition cpre_spec (E S T : bdd) (v : V) : bool :=
  if moore
  then existsb (fun y' => forallb (fun x' => phi E S T v x' y') (seq 0 nx)) (seq 0 ny)
  else forallb (fun x' => existsb (fun y' => phi E S T v x' y') (seq 0 ny)) (seq 0 nx).

Lemma forallb_mono {A} (f g : A -> bool) l :
  (forall a, In a l -> f a = true -> g a = true) ->
  forallb f l = true -> forallb g l = true.
Proof.
  rewrite !forallb_forall. intros H Hf a Ha. apply H; [exact Ha|]. apply Hf, Ha.
Qed.
Lemma existsb_mono {A} (f g : A -> bool) l :
  (forall a, In a l -> f a = true -> g a = true) ->
  existsb f l = true -> existsb g l = true.
Proof.
  rewrite !existsb_exists. intros H [a [Ha Hf]]. exists a. split; [exact Ha|].
  apply H; assumption.
Qed.

Lemma phi_mono E S T T' v x' y' :
  le nc nx ny T T' -> inr nc nx ny v -> x' < nx -> y' < ny ->
  phi E S T v x' y' = true -> phi E S T' v x' y' = true.
Proof.
  intros H Hv Hx Hy. unfold phi.
  assert (Hin : inr nc nx ny (mkV (vc v) x' y' x' y')).
  { unfold inr, in_range in *. cbn [vc vx vy vxp vyp].
    repeat rewrite andb_true_iff in Hv. repeat rewrite andb_true_iff.
    repeat rewrite Nat.ltb_lt in Hv. repeat rewrite Nat.ltb_lt. lia. }
  specialize (H _ Hin).
  destruct plus_one, (S _), (E _), (T _), (T' _); cbn in *; auto.
Qed.

Lemma cpre_spec_mono E S T T' :
  le nc nx ny T T' -> le nc nx ny (cpre_spec E S T) (cpre_spec E S T').
Proof.
  intros H v Hv. unfold cpre_spec. destruct moore.
  - apply existsb_mono. intros y' Hy'. apply forallb_mono. intros x' Hx'.
    apply in_seq in Hy', Hx'. apply phi_mono; try assumption; lia.
  - apply forallb_mono. intros x' Hx'. apply existsb_mono. intros y' Hy'.
    apply in_seq in Hy', Hx'. apply phi_mono; try assumption; lia.
Qed.

(* existential image of a set of states under an action S *)
Definition image_spec (S src : bdd) (v : V) : bool :=
  existsb (fun x => existsb (fun y =>
    S (mkV (vc v) x y (vx v) (vy v)) && src (mkV (vc v) x y (vx v) (vy v)))
    (seq 0 ny)) (seq 0 nx).

End GameSpec.
