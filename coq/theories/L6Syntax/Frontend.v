(* L6 Syntax — string -> tree front end (lexer model + parser model) and
   string -> GR(1) parts.  Model file: no proofs. *)
From Coq Require Import List String NArith Bool.
From Omega Require Import L6Syntax.Tokens L6Syntax.Lexer L6Syntax.Parser
  L6Syntax.Flatten L6Syntax.Gr1Split.
Import ListNotations.

Section Front.
Variable rules : list lexrule.
Variable reserved values : list (string * string).
Variable ignore : list N.
Variable T : ptable.

Definition lex_string := lex rules reserved values ignore.

(* omega.logic.lexyacc.Parser().parse(s) ; None = the parser raises *)
Definition parse_string (s : string) : option tree :=
  match lex_string s with
  | Some ts => parse T ts
  | None => None
  end.

(* omega.gr1.split_gr1(s) *)
Definition split_string (s : string) : option gr1_parts :=
  match parse_string s with
  | Some t => temporal_to_canonical t
  | None => None
  end.

(* the token the lexer yields for a single lexeme *)
Definition lex1 (s : string) : token :=
  match lex_string s with
  | Some [t] => t
  | _ => Tok "ERROR" s
  end.

(* tree.flatten() then parse *)
Definition reparse (t : tree) : option tree := parse_string (flatten_str t).

End Front.
