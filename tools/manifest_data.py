HOOK_COMMITS = []
NOTES = ('Technique: machine-checked proof in Coq 8.16.1. See DESIGN.md. '
         'Every check regenerates its model/tables from /repo, re-checks the '
         'theorems with coqc, runs the correspondence on fresh inputs and '
         'writes evidence/<id>.json.')
NOT_APPLICABLE = {}
CHECKS = {
 'C11': dict(
   design_ref='§6 C11',
   technique='Coq proof over code translated from fixpoint.py (tie T) + vm_compute correspondence on random arenas',
   text=('step/attractor/trap/ee_image/descendants are translated from the '
         'current fixpoint.py into Gallina on every run; theorems proved for '
         'all arenas, all four modes: step = set-level controllable '
         'predecessor; attractor = least fixpoint (with/without inside); trap '
         '= greatest fixpoint started from TRUE; ee_image = exact successors; '
         'descendants inside constraint, closed, least; loops never exhaust '
         'fuel >= |valuations|. The dd operations are modelled by meaning, '
         'so the translated model is additionally run against the real '
         'code on random arenas over both back ends.'),
   note=('Trusted: Coq kernel+vm_compute; py2coq translator (fail-closed); '
         'meaning of dd operations (&,|,~,exist,forall,let/rename,==) as set '
         'operations; sample-based tie for dd semantics; preimage() not '
         'modelled. No axioms (Print Assumptions: closed).')),
}
