(* L2t / ThreadProofs: the memory threading of Thread.v is sound: after the
   cells that flatten appends are evaluated as symbolic/bdd.py does, the
   result bits of an arithmetic-scope tree have the values computed by the
   shallow circuits composed in the same way ([aval]), and the buffer that
   Comparator.flatten returns evaluates to the comparison of those values.
   For all trees, widths and bit values. *)
From Coq Require Import String ZArith List Bool Lia.
From Omega Require Import L1Circuits.Circuits L1Circuits.CircuitsLengths L1Circuits.CircuitsProofs
  L1Circuits.Deep L1Circuits.DeepProofs L1Circuits.PyBits
  L2Compile.Expr L2Compile.Emit L2Compile.EmitProofs L2Compile.Thread.
Import ListNotations.

Section Thread.
Variable vars : nat -> bool.

Lemma run_length : forall cells m, length (run vars m cells) = (length m + length cells)%nat.
Proof.
  induction cells as [|c cells IH]; intros m; cbn [run length]; [lia|].
  rewrite IH, app_length. cbn [length]. lia.
Qed.

Lemma reg_free_eval : forall e m, reg_free e = true -> evalx vars m e = evalx vars [] e.
Proof.
  induction e; intros m H; cbn [reg_free] in H; cbn [evalx]; try reflexivity; try discriminate.
  - now rewrite IHe.
  - apply andb_prop in H. destruct H. now rewrite IHe1, IHe2.
  - apply andb_prop in H. destruct H. now rewrite IHe1, IHe2.
  - apply andb_prop in H. destruct H. now rewrite IHe1, IHe2.
Qed.

Lemma reg_free_stable : forall e m, reg_free e = true -> stable vars m e (evalx vars [] e).
Proof. intros e m H m'. now apply reg_free_eval. Qed.

Lemma reg_free_stables : forall l m, forallb reg_free l = true ->
  Forall2 (stable vars m) l (map (evalx vars []) l).
Proof.
  induction l as [|a l IH]; intros m H; cbn [map]; [constructor|].
  cbn [forallb] in H. apply andb_prop in H. destruct H as [Ha Hl].
  constructor; [now apply reg_free_stable|now apply IH].
Qed.

Lemma aval_arith : forall o op a b,
  aval vars (AArith o op a b) = arith_value o (aval vars a) (aval vars b).
Proof. intros. now destruct o. Qed.

Lemma aval_nonempty : forall e, awf e = true -> (1 <= length (aval vars e))%nat.
Proof.
  induction e as [u bits|op a IH|o op a IHa b IHb|g gb a IHa b IHb]; intros W; cbn [awf] in W.
  - apply andb_prop in W. destruct W as [W _]. cbn [aval]. rewrite map_length.
    destruct (length bits); [discriminate|lia].
  - now apply IH.
  - apply andb_prop in W. destruct W as [Wa Wb]. specialize (IHa Wa). specialize (IHb Wb).
    destruct o; cbn [aval].
    + rewrite adder_length. lia.
    + rewrite adder_length. lia.
    + rewrite multiplier_length. lia.
    + destruct (restoring_divider_length _ _ IHa IHb) as [-> _]. lia.
    + destruct (restoring_divider_length _ _ IHa IHb) as [_ ->]. lia.
  - apply andb_prop in W. destruct W as [W Wb]. apply andb_prop in W. destruct W as [_ Wa].
    specialize (IHa Wa). specialize (IHb Wb). cbn [aval]. unfold equalize_width.
    rewrite ite_function_length, !sign_extension_len by lia. lia.
Qed.

Theorem thread_sound : forall e mem, awf e = true ->
  let m := run vars [] mem in
  let '(r, mem') := d_aflat e mem in
  let m1 := run vars [] mem' in
  (exists k, extends m m1 k) /\ Forall2 (stable vars m1) r (aval vars e).
Proof.
  induction e as [u bits|op a IH|o op a IHa b IHb|g gb a IHa b IHb]; intros mem W; cbn [awf] in W.
  - cbn [d_aflat aval]. apply andb_prop in W. destruct W as [_ W]. split.
    + exists 0%nat. apply extends_refl.
    + now apply reg_free_stables.
  - cbn [d_aflat aval]. now apply IH.
  - apply andb_prop in W. destruct W as [Wa Wb]. cbn [d_aflat]. rewrite aval_arith.
    specialize (IHa mem Wa). destruct (d_aflat a mem) as [p m1]. cbv zeta in IHa.
    destruct IHa as [[k1 E1] S1].
    specialize (IHb m1 Wb). destruct (d_aflat b m1) as [q m2]. cbv zeta in IHb.
    destruct IHb as [[k2 E2] S2].
    pose proof (extends_stables _ _ _ _ _ _ E2 S1) as S1'.
    pose proof (flatten_arithmetic_sound vars o p (aval vars a) q (aval vars b)
                  (run vars [] m2) S1' S2 (aval_nonempty a Wa) (aval_nonempty b Wb)) as A.
    rewrite run_length in A. cbn [length Nat.add] in A.
    destruct (d_flatten_arithmetic o p q (length m2)) as [r cells]. cbv zeta in A |- *.
    rewrite run_app. destruct A as [E3 S3]. split; [|exact S3].
    eexists. eapply extends_trans; [eapply extends_trans; [exact E1|exact E2]|exact E3].
  - apply andb_prop in W. destruct W as [W Wb]. apply andb_prop in W. destruct W as [Wg Wa].
    cbn [d_aflat aval].
    specialize (IHa mem Wa). destruct (d_aflat a mem) as [y m1]. cbv zeta in IHa.
    destruct IHa as [[k1 E1] S1].
    specialize (IHb m1 Wb). destruct (d_aflat b m1) as [z m2]. cbv zeta in IHb.
    destruct IHb as [[k2 E2] S2].
    pose proof (extends_stables _ _ _ _ _ _ E2 S1) as S1'.
    destruct (stables_equalize vars (run vars [] m2) y (aval vars a) z (aval vars b) 0 S1' S2)
      as [Hp Hq].
    pose proof (aval_nonempty a Wa) as Na. pose proof (aval_nonempty b Wb) as Nb.
    assert (L : length (fst (equalize_width (aval vars a) (aval vars b) 0))
              = length (snd (equalize_width (aval vars a) (aval vars b) 0))).
    { unfold equalize_width. cbn [fst snd]. rewrite !sign_extension_len; lia. }
    destruct (d_equalize_width y z 0) as [p q].
    destruct (equalize_width (aval vars a) (aval vars b) 0) as [vp vq]. cbn [fst snd] in *.
    pose proof (ite_sound vars gb (evalx vars [] gb) p vp q vq (run vars [] m2)
                  (reg_free_stable gb _ Wg) Hp Hq L) as A.
    rewrite run_length in A. cbn [length Nat.add] in A.
    destruct (d_ite_function gb p q (length m2)) as [r ite_mem]. cbv zeta in A |- *.
    rewrite run_app. destruct A as [E3 S3]. split; [|exact S3].
    eexists. eapply extends_trans; [eapply extends_trans; [exact E1|exact E2]|exact E3].
Qed.

(* Comparator.flatten on two arithmetic operands: the value of the returned
   buffer "$ n cells" is the comparison of the operands' values *)
Theorem cmp_flat_sound : forall o a b, awf a = true -> awf b = true ->
  let cells := d_cmp_flat o a b in
  buf_value vars (FBuf (py_len cells) cells) = Some (comparator o (aval vars a) (aval vars b)).
Proof.
  intros o a b Wa Wb. unfold d_cmp_flat.
  pose proof (thread_sound a [] Wa) as A. destruct (d_aflat a []) as [p m1]. cbv zeta in A.
  destruct A as [_ S1].
  pose proof (thread_sound b m1 Wb) as B. destruct (d_aflat b m1) as [q m2]. cbv zeta in B.
  destruct B as [[k E] S2].
  pose proof (extends_stables _ _ _ _ _ _ E S1) as S1'. cbv zeta.
  apply (comparator_buffer_sound vars o p (aval vars a) q (aval vars b) m2 (run vars [] m2));
    [reflexivity|rewrite run_length; reflexivity|exact S1'|exact S2].
Qed.

(* ... and that comparison is the comparison of the integers that the
   operand bits denote *)
Corollary cmp_flat_exact : forall o a b, awf a = true -> awf b = true ->
  let cells := d_cmp_flat o a b in
  buf_value vars (FBuf (py_len cells) cells)
  = Some (sem_cmp o (sval (aval vars a)) (sval (aval vars b))).
Proof.
  intros o a b Wa Wb. cbv zeta. rewrite (cmp_flat_sound o a b Wa Wb). f_equal.
  assert (Na : aval vars a <> []).
  { pose proof (aval_nonempty a Wa). destruct (aval vars a); [cbn in *; lia|discriminate]. }
  assert (Nb : aval vars b <> []).
  { pose proof (aval_nonempty b Wb). destruct (aval vars b); [cbn in *; lia|discriminate]. }
  rewrite (comparator_spec o _ _ Na Nb). destruct o; reflexivity.
Qed.
End Thread.
