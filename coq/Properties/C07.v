(* C07 — Context operations on BDDs equal the same operations on sets of
   assignments.  Statements only; proofs in theories/L0Bits/BitsFacts.v and
   theories/L3Context/CtxFacts.v. *)
From Coq Require Import ZArith List Bool String Lia.
From Omega Require Import L0Bits.Bits L0Bits.BitsFacts L3Context.Ctx.
Import ListNotations.
Open Scope Z_scope.

(* the values enumerated from a partial bit vector are exactly the values of
   the total vectors that agree with it, each exactly once *)
Theorem C07_enumerate_int_spec : forall bs, bs <> [] ->
  (forall v, In v (enumerate_int bs) <->
             exists l, agrees bs l /\ twos_complement_to_int l = v) /\
  NoDup (enumerate_int bs).
Proof. exact enumerate_int_spec. Qed.

Example C07_enumerate_int_example :
  enumerate_int [None; Some true; None] = [-4 + 2; -4 + 2 + 1; 0 + 2; 0 + 2 + 1].
Proof. reflexivity. Qed.

Print Assumptions C07_enumerate_int_spec.
