(* C06, tie T: quantifier-free Boolean formulas.  The translated
   Nodes.Binary.flatten (connectives /\ \/ => <=> ^ through Nodes.opmap) and
   the non-priming branch of Nodes.Unary.flatten (~), together with the
   translated Comparator / Arithmetic / Var / Num / Bool .flatten, on a
   formula of Leaf.bexp: the emitted Boolean-scope formula, evaluated as
   symbolic/bdd.py does, is the Boolean meaning of the formula over the
   integers.  No external flatten function is consulted. *)
From Coq Require Import String Ascii ZArith List Bool Lia.
From Omega Require Import L1Circuits.Circuits L1Circuits.Deep L1Circuits.PyBits
  L1Circuits.PyStr L2Compile.Expr L2Compile.Emit L2Compile.Thread L2Compile.Leaf.
From OmegaGen Require Import BitvectorGen.
From OmegaGP Require Import BitvectorBridge BitvectorLeafBridge BitvectorFlatBridge
  BitvectorCorrect.
Import ListNotations.
Open Scope Z_scope.

Ltac eval_strs H :=
  repeat match type of H with context [String.eqb ?a ?b] =>
    let v := eval vm_compute in (String.eqb a b) in
    match v with
    | true => change (String.eqb a b) with true in H
    | false => change (String.eqb a b) with false in H
    end end.

Section Formula.
Variable defs : Type.
Variable defs_mem : defs -> string -> bool.
Variable var_id : string -> nat.
Variable ext_flatten def_flatten : pnode -> option (list bx) -> kwargs defs
                                   -> option (fres * option (list bx)).
Notation flat := (g_flatten defs defs_mem var_id ext_flatten def_flatten).

(* Binary.flatten on a connective: operands left to right with the same
   memory, the operator prefix from Nodes.opmap applied to both results *)
Theorem binary_flatten_is_model : forall fuel op x y mem kw r st,
  flat (S fuel) (PNode "Binary" op [x; y]) mem kw = Some (r, st) ->
  op <> "=="%string -> op <> ".."%string -> op <> "\in"%string ->
  exists rx sx ry opx px py p,
    flat fuel x mem kw = Some (rx, sx) /\ flat fuel y sx kw = Some (ry, st) /\
    dict_get g_opmap op = Some opx /\ px_of_fres rx = Some px /\ px_of_fres ry = Some py /\
    py_apply_prefix opx [px; py] = Some p /\ r = RForm p.
Proof.
  intros fuel op x y mem kw r st H N1 N2 N3. cbn [g_flatten] in H. eval_strs H.
  cbv beta iota zeta in H.
  apply String.eqb_neq in N1, N2, N3. rewrite N1 in H.
  destruct (flat fuel x mem kw) as [[rx sx]|] eqn:Ex; [|discriminate]. cbv beta iota zeta in H.
  destruct (flat fuel y sx kw) as [[ry sy]|] eqn:Ey; [|discriminate]. cbv beta iota zeta in H.
  rewrite N2, N3 in H. minv H. injection H as <- <-.
  repeat eexists; eauto.
Qed.

(* Unary.flatten on an operator other than X and ' *)
Theorem unary_flatten_is_model : forall fuel op x mem kw r st,
  flat (S fuel) (PNode "Unary" op [x]) mem kw = Some (r, st) ->
  op <> "X"%string -> op <> "'"%string ->
  exists rx opx px p,
    flat fuel x mem kw = Some (rx, st) /\ dict_get g_opmap op = Some opx /\
    px_of_fres rx = Some px /\ py_apply_prefix opx [px] = Some p /\ r = RForm p.
Proof.
  intros fuel op x mem kw r st H N1 N2. cbn [g_flatten] in H. eval_strs H.
  cbv beta iota zeta in H.
  apply String.eqb_neq in N1, N2. rewrite N1, N2 in H. cbn [orb] in H. cbv beta iota in H.
  change (py_index [x] 0) with (Some x) in H. minv H. injection H as <- <-.
  repeat eexists; eauto.
Qed.

(* the operator prefixes of Nodes.opmap mean the connectives *)
Lemma opmap_connective : forall vars op o opx a b p,
  bop_of_string op = Some o -> dict_get g_opmap op = Some opx ->
  py_apply_prefix opx [a; b] = Some p ->
  eval_px vars p = lift2 (sem_bop o) (eval_px vars a) (eval_px vars b).
Proof.
  intros vars op o opx a b p Ho Hd Hp. unfold bop_of_string in Ho.
  repeat match type of Ho with (if String.eqb ?u ?w then _ else _) = _ =>
    destruct (String.eqb_spec u w); [subst op; injection Ho as <-|] end; try discriminate;
    vm_compute in Hd; injection Hd as <-; vm_compute in Hp; injection Hp as <-;
    cbn [eval_px sem_bop]; destruct (eval_px vars a) as [[|]|], (eval_px vars b) as [[|]|];
    reflexivity.
Qed.

Lemma opmap_negation : forall vars opx a p,
  dict_get g_opmap "~"%string = Some opx -> py_apply_prefix opx [a] = Some p ->
  eval_px vars p = option_map negb (eval_px vars a).
Proof.
  intros vars opx a p Hd Hp. vm_compute in Hd. injection Hd as <-.
  vm_compute in Hp. injection Hp as <-. reflexivity.
Qed.

(* ---- end to end *)
Variable vars : nat -> bool.
Variable t : PyStr.table.
Variable env : string -> bool -> Z.
Variable benv : string -> bool.

(* the assignment of the bit variables encodes the Boolean variables *)
Definition encodes_bool : Prop :=
  forall name gb, d_var_flatten var_id t name false = Some (RStr gb) ->
    evalx vars [] gb = benv name.

(* every leaf of the formula is declared and no divisor is zero *)
Fixpoint bwf (e : bexp) : Prop :=
  match e with
  | BConst _ => True
  | BVar n => exists gb, d_var_flatten var_id t n false = Some (RStr gb)
  | BCmp _ l r =>
      (exists la, q_anode var_id t false l = Some la) /\
      (exists ra, q_anode var_id t false r = Some ra)
  | BNot _ a => bwf a
  | BBin _ a b => bwf a /\ bwf b
  end.

Theorem translated_formula_end_to_end : forall e fuel kw r st v,
  k_t kw = Some t -> nodef_on defs defs_mem kw (bnames e) -> py_truth (k_prime kw) = false ->
  encodes var_id vars t env -> encodes_bool -> bwf e ->
  bsem env benv e = Some v ->
  flat fuel (bnode e) None kw = Some (r, st) ->
  st = None /\ exists p, px_of_fres r = Some p /\ eval_px vars p = Some v.
Proof.
  induction e as [c|n|op l r0|op a IH|op a IHa b IHb];
    intros fuel kw r st v Ht Hd Hp Enc EncB W S H; (destruct fuel as [|fuel]; [discriminate|]);
    cbn [bnode bsem bwf] in *.
  - destruct (bool_flatten_is_model defs defs_mem var_id ext_flatten def_flatten fuel c None kw)
      as [T F].
    destruct (String.eqb_spec (py_lower c) "true") as [E|_].
    + injection S as <-. rewrite (T E) in H. injection H as <- <-.
      split; [reflexivity|]. eexists. split; reflexivity.
    + destruct (String.eqb_spec (py_lower c) "false") as [E|_]; [|discriminate].
      injection S as <-. rewrite (F E) in H. injection H as <- <-.
      split; [reflexivity|]. eexists. split; reflexivity.
  - destruct W as [gb G]. injection S as <-.
    rewrite (var_flatten_is_model defs defs_mem var_id ext_flatten def_flatten fuel n None kw t Ht)
      in H by (apply Hd; cbn [bnames]; now left).
    rewrite Hp, G in H. injection H as <- <-. split; [reflexivity|].
    eexists. split; [reflexivity|]. cbn [eval_px]. f_equal. now apply EncB.
  - destruct W as [[la La] [ra Ra]].
    destruct (cmp_of_string op) as [o|] eqn:O; [|discriminate].
    destruct (qval env false l) as [x|] eqn:Vl; [|discriminate].
    destruct (qval env false r0) as [y|] eqn:Vr; [|discriminate]. injection S as <-.
    rewrite <- Hp in La, Ra, Vl, Vr.
    destruct (translated_flatten_end_to_end defs defs_mem var_id ext_flatten def_flatten vars t env
                op l r0 la ra (S fuel) kw r st x y Ht Hd Enc La Ra Vl Vr H)
      as (o' & buf & O' & -> & -> & B).
    assert (o' = o) by congruence. subst o'. split; [reflexivity|].
    eexists. split; [reflexivity|]. exact B.
  - destruct (String.eqb_spec op "~") as [->|_]; [|discriminate].
    destruct (bsem env benv a) as [va|] eqn:Sa; [|discriminate]. injection S as <-.
    apply unary_flatten_is_model in H; [|discriminate|discriminate].
    destruct H as (rx & opx & px & p & Hx & Ho & Px & Ap & ->).
    destruct (IH _ _ _ _ _ Ht Hd Hp Enc EncB W eq_refl Hx) as (-> & p' & Px' & Ev).
    rewrite Px in Px'. injection Px' as <-. split; [reflexivity|].
    eexists. split; [reflexivity|]. rewrite (opmap_negation vars _ _ _ Ho Ap), Ev. reflexivity.
  - destruct W as [Wa Wb].
    destruct (bop_of_string op) as [o|] eqn:O; [|discriminate].
    destruct (bsem env benv a) as [va|] eqn:Sa; [|discriminate].
    destruct (bsem env benv b) as [vb|] eqn:Sb; [|discriminate]. injection S as <-.
    apply binary_flatten_is_model in H.
    2-4: intros ->; vm_compute in O; discriminate.
    destruct H as (rx & sx & ry & opx & px & py & p & Hx & Hy & Ho & Px & Py & Ap & ->).
    destruct (nodef_on_app _ _ _ _ _ Hd) as [Hda Hdb].
    destruct (IHa _ _ _ _ _ Ht Hda Hp Enc EncB Wa eq_refl Hx) as (-> & pa & Pa & Eva).
    destruct (IHb _ _ _ _ _ Ht Hdb Hp Enc EncB Wb eq_refl Hy) as (-> & pb & Pb & Evb).
    rewrite Px in Pa. injection Pa as <-. rewrite Py in Pb. injection Pb as <-.
    split; [reflexivity|]. eexists. split; [reflexivity|].
    rewrite (opmap_connective vars op o opx px py p O Ho Ap), Eva, Evb. reflexivity.
Qed.
End Formula.
