#!/bin/bash
# Independent re-check of the compiled property files with coqchk, printing
# the axioms they (and everything they load) rely on.  Run after a full pass
# of the checks (they compile coq/Properties/*.vo).  Takes several minutes.
cd /verif/coq
mods=$(ls Properties/*.vo 2>/dev/null | sed 's|Properties/\(.*\)\.vo|OmegaProps.\1|')
timeout 7200 coqchk -silent -o -Q theories Omega -Q gen OmegaGen -Q GenProofs OmegaGP \
  -Q Properties OmegaProps $mods 2>&1 | tail -40
