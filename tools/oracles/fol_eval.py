"""Search oracle for C06: point-wise evaluation of a formula tree
(vlib.fol_ast form) with Python integers.  Independent of omega and of the Coq
model; used to decide whether a disagreement is a failing input of the
PROPERTY, and cross-checked against the implementation on every run.

`evaluate(tree, decl, asg)`: asg maps (name, primed) -> int/bool.
Returns bool/int; raises DivZero when a divisor evaluates to zero,
IllTyped on ill-typed formulas.
"""


class DivZero(Exception):
    pass


class IllTyped(Exception):
    pass


def c99_div(a, b):
    q = abs(a) // abs(b)
    return q if (a < 0) == (b < 0) else -q


def c99_mod(a, b):
    return a - b * c99_div(a, b)


def representable(h):
    """All values representable in the bits of a variable with hint h."""
    if h == 'bool':
        return [False, True]
    lo, hi = h
    w = max(abs(lo), abs(hi)).bit_length() or 1
    if lo < 0 <= hi:
        return list(range(-2 ** w, 2 ** w))
    if lo >= 0:
        return list(range(0, 2 ** w))
    return list(range(-2 ** w, 0))


def _b(x):
    if not isinstance(x, bool):
        raise IllTyped(x)
    return x


def _z(x):
    if isinstance(x, bool) or not isinstance(x, int):
        raise IllTyped(x)
    return x


def evaluate(e, decl, asg, defs=None, prime=False):
    defs = defs or {}
    k = e[0]
    ev = lambda x: evaluate(x, decl, asg, defs, prime)
    if k == 'true':
        return True
    if k == 'false':
        return False
    if k == 'num':
        return e[1]
    if k == 'var':
        if e[1] not in decl:
            raise IllTyped(e)
        return asg[(e[1], prime)]
    if k == 'op':
        if e[1] not in defs:
            raise IllTyped(e)
        d, denv = defs[e[1]]
        return evaluate(d, decl, asg, denv, prime)
    if k == 'not':
        return not _b(ev(e[2]))
    if k == 'bin':
        x, y = ev(e[2]), ev(e[3])      # strict: DivZero propagates
        x, y = _b(x), _b(y)
        sp = e[1]
        if sp in ('/\\', '&', '&&'):
            return x and y
        if sp in ('\\/', '|', '||'):
            return x or y
        if sp in ('=>', '->'):
            return (not x) or y
        if sp in ('<=>', '<->'):
            return x == y
        if sp == '^':
            return x != y
        raise IllTyped(e)
    if k == 'cmp':
        x, y = ev(e[2]), ev(e[3])
        sp = e[1]
        if isinstance(x, bool) or isinstance(y, bool):
            _b(x), _b(y)
            if sp == '=':
                return x == y
            if sp in ('#', '!=', '/='):
                return x != y
            raise IllTyped(e)
        return {'<': x < y, '<=': x <= y, '=<': x <= y, '=': x == y,
                '#': x != y, '!=': x != y, '/=': x != y, '>=': x >= y,
                '>': x > y}[sp]
    if k == 'arith':
        x, y = _z(ev(e[2])), _z(ev(e[3]))
        op = e[1]
        if op == '+':
            return x + y
        if op == '-':
            return x - y
        if op == '*':
            return x * y
        if y == 0:
            raise DivZero(e)
        return c99_div(x, y) if op == '/' else c99_mod(x, y)
    if k == 'in':
        return e[2] <= _z(ev(e[1])) <= e[3]
    if k == 'ite':
        c, a, b = ev(e[2]), ev(e[3]), ev(e[4])
        if isinstance(a, bool) != isinstance(b, bool):
            raise IllTyped(e)
        return a if _b(c) else b
    if k == 'let':
        env = dict(defs)
        for n, d in e[1]:
            if n in env:
                raise IllTyped(e)
            env[n] = (d, dict(env))
        return evaluate(e[2], decl, asg, env, prime)
    if k == 'prime':
        return evaluate(e[2], decl, asg, defs, True)
    if k == 'quant':
        def rec(vs, asg):
            if not vs:
                return [evaluate(e[3], decl, asg, defs, prime)]
            (n, p), rest = vs[0], vs[1:]
            if n not in decl:
                raise IllTyped(e)
            out = []
            for val in representable(decl[n]):
                a2 = dict(asg)
                a2[(n, prime or p)] = val
                out += rec(rest, a2)
            return out
        rs = [_b(r) for r in rec(list(e[2]), asg)]
        return all(rs) if e[1] == 'A' else any(rs)
    raise IllTyped(e)


def table(tree, decl, rows, defs=None):
    """Per row: True/False/int, or None where a divisor is zero."""
    env = {}
    for n, d in (defs or []):
        env[n] = (d, dict(env))
    out = []
    for asg in rows:
        full = {(n, p): (False if decl[n] == 'bool' else 0)
                for n in decl for p in (False, True)}
        full.update(asg)
        try:
            out.append(evaluate(tree, decl, full, env))
        except DivZero:
            out.append(None)
    return out
