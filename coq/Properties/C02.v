(* C02 — the synthesized Streett(1) implementation.  Statements only.

   Model: GenProofs/TransducerModel.v (hand-written, tied to
   gr1.make_streett_transducer by the correspondence check) over the
   GENERATED _controllable_action.  The theorems below hold for ARBITRARY
   iterate lists, hence for whatever the solver returns:

   (a) every step the synthesized action allows satisfies the specified
       component action under the mode's causality rule (sys_action if
       plus_one; env_action => sys_action otherwise; for every next
       environment value if Moore);
   (b) a Moore implementation does not depend on the next environment values;
   (c) when the environment keeps its action the goal counter is within
       0..n-1 before and after the step; with strict causality it is in range
       before every allowed step.
   Initial states: C03_init_sound applied to the counter's initial value.

   NOT proved here: closure of the winning region,
   absence of blocking, and liveness of infinite behaviours; these are only
   exercised on the real code by the explicit closed-loop search. *)
From Coq Require Import List Bool Arith Lia.
From Omega Require Import L4.Arena L4.Kleene.
From OmegaGen Require Import FixpointGen Gr1Gen.
From OmegaGP Require Import TransducerModel StreettTProofs.

Section C02.
Variables nc nx ny G : nat.
Variables E S : bdd.
Variables holds goals : list bdd.
Local Notation action := (streett_action nc nx ny G E S holds goals).

Theorem C02_refines_component_action : forall moore plus_one z yij xijk v,
  action moore plus_one z yij xijk v = true ->
  oblig_mode nx E S moore plus_one v = true.
Proof.
  intros moore plus_one z yij xijk.
  exact (streett_action_refines nc nx ny G E S holds goals moore plus_one z yij xijk).
Qed.

Theorem C02_obligation_at_the_step : forall moore plus_one v,
  inr nc nx (ny * G) v -> oblig_mode nx E S moore plus_one v = true ->
  oblig E S plus_one v = true.
Proof. exact (oblig_mode_oblig nc nx ny G E S). Qed.

Theorem C02_moore_independent_of_next_env : forall plus_one z yij xijk,
  indep z -> Forall (Forall indep) yij -> Forall (Forall (Forall indep)) xijk ->
  Forall indep goals -> Forall indep holds ->
  indep (action true plus_one z yij xijk).
Proof. exact (streett_action_moore_indep nc nx ny G E S holds goals). Qed.

Theorem C02_counter_in_range : forall moore plus_one z yij xijk v,
  inr nc nx (ny * G) v ->
  action moore plus_one z yij xijk v = true ->
  (E v = true -> cnt G v <= length goals - 1 /\ cntp G v <= length goals - 1) /\
  (plus_one = true -> cnt G v <= length goals - 1).
Proof. exact (streett_counter_range nc nx ny G E S holds goals). Qed.

End C02.

Print Assumptions C02_refines_component_action.
Print Assumptions C02_obligation_at_the_step.
Print Assumptions C02_moore_independent_of_next_env.
Print Assumptions C02_counter_in_range.
