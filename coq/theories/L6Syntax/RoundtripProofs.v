(* L6 Syntax — string-level round trip: the string that flatten prints lexes
   to the token sequence of Flatten.flatten, hence parses back to the tree. *)
From Coq Require Import List String Ascii NArith Bool Lia.
From Omega Require Import L6Syntax.Tokens L6Syntax.TreeInd L6Syntax.Lexer
  L6Syntax.Parser L6Syntax.Flatten L6Syntax.Frontend L6Syntax.LexSpec
  L6Syntax.PrecSpec L6Syntax.RoundtripSpec L6Syntax.LexerProofs
  L6Syntax.ParserProofs.
Import ListNotations.
Local Open Scope string_scope.

Section RT.
Variable rules : list lexrule.
Variable reserved values : list (string * string).
Variable ignore : list N.
Variable optok : string -> token.
Hypothesis Hblank : is_ignored ignore " "%char = true.

Local Notation Rendered := (Rendered rules reserved values ignore).
Local Notation ltok := (lexeme_tok rules reserved values ignore).
Local Notation sflat := (sflat rules reserved values ignore optok).

Lemma R_blank : forall s ts, Rendered s ts -> Rendered (" " ++ s) ts.
Proof.
  intros. apply R_sep; [discriminate | | assumption].
  apply sep_blank; [exact Hblank | constructor].
Qed.

Lemma ltok_nonempty : forall s c tok, ltok s c = Some tok -> s <> "".
Proof. intros s c tok H E. subst. unfold lexeme_tok in H. simpl in H. discriminate. Qed.

Lemma hd_char_app : forall a b, a <> "" -> hd_char (a ++ b) = hd_char a.
Proof. destruct a; simpl; congruence. Qed.

Lemma R_tok' : forall sp c s ts tok,
  ltok sp c = Some tok -> hd_char s = c -> Rendered s ts -> Rendered (sp ++ s) (tok :: ts).
Proof. intros. subst c. apply R_tok; assumption. Qed.

(* the printed string of t, followed by tail, is a rendering of the tokens
   of t followed by those of tail *)
Lemma sflat_rendered : forall t nx tail ts',
  sflat t nx -> hd_char tail = nx -> Rendered tail ts' ->
  Rendered (flatten_str t ++ tail) (flatten optok t ++ ts')%list.
Proof.
  induction t using tree_ind'; intros nx tail ts' Hs Hc HR.
  - destruct k; simpl in Hs |- *; try contradiction.
    + eapply R_tok'; eauto.
    + destruct (is_neg v) eqn:Hn.
      * destruct Hs as [Hm Hnum].
        destruct v as [|c0 w]; [discriminate|]. simpl in Hn.
        apply Ascii.eqb_eq in Hn. subst c0. simpl in Hm, Hnum |- *.
        change (String "-" (w ++ tail)) with ("-" ++ (w ++ tail)).
        eapply R_tok'; [exact Hm | | ].
        -- apply hd_char_app. eapply ltok_nonempty; eauto.
        -- eapply R_tok'; eauto.
      * eapply R_tok'; eauto.
    + eapply R_tok'; eauto.
    + destruct Hs as [Ev [H1 [H2 H3]]].
      rewrite Ev at 1. unfold term_toks.
      change (substring 1 (String.length v - 2) v) with (unquote v).
      change (String """" (unquote v ++ """") ++ tail)
        with (String """" ((unquote v ++ """") ++ tail)).
      rewrite sapp_assoc.
      change (String """" (unquote v ++ """" ++ tail))
        with ("""" ++ (unquote v ++ ("""" ++ tail))).
      eapply (R_tok' """"); [exact H1 | | ].
      * rewrite <- sapp_assoc. apply hd_char_app. destruct (unquote v); discriminate.
      * eapply R_tok'; [exact H2 | reflexivity |].
        eapply (R_tok' """"); eauto.
  - (* Un *)
    simpl in Hs. destruct Hs as [HL [Hop [Hx HRp]]].
    change (flatten_str (Un op t))
      with ("(" ++ " " ++ op ++ " " ++ flatten_str t ++ " " ++ ")").
    change (flatten optok (Un op t)) with (LP :: optok op :: flatten optok t ++ [RP])%list.
    rewrite !sapp_assoc. simpl app. rewrite <- ?app_assoc. simpl app.
    eapply (R_tok' "("); [exact HL | reflexivity |]. apply R_blank.
    eapply R_tok'; [exact Hop | reflexivity |]. apply R_blank.
    eapply IHt; [exact Hx | reflexivity |]. apply R_blank.
    eapply (R_tok' ")"); eauto.
  - (* Bin *)
    simpl in Hs. destruct Hs as [HL [Hl [Hop [Hr HRp]]]].
    change (flatten_str (Bin c op t1 t2))
      with ("(" ++ " " ++ flatten_str t1 ++ " " ++ op ++ " " ++ flatten_str t2 ++ " " ++ ")").
    change (flatten optok (Bin c op t1 t2))
      with (LP :: flatten optok t1 ++ optok op :: flatten optok t2 ++ [RP])%list.
    rewrite !sapp_assoc. simpl app. rewrite <- ?app_assoc. simpl app.
    eapply (R_tok' "("); [exact HL | reflexivity |]. apply R_blank.
    rewrite <- ?app_assoc; simpl app.
    eapply IHt1; [exact Hl | reflexivity |]. apply R_blank.
    eapply R_tok'; [exact Hop | reflexivity |]. apply R_blank.
    rewrite <- ?app_assoc; simpl app.
    eapply IHt2; [exact Hr | reflexivity |]. apply R_blank.
    eapply (R_tok' ")"); eauto.
  - (* Opr: ite(a, b, d) *)
    destruct args as [|a [|b [|d [|e args]]]]; simpl in Hs; try contradiction.
    destruct Hs as [Hop [HL [Ha [Hcm [Hb [Hd HRp]]]]]].
    inversion H as [|? ? Pa H1]; subst. inversion H1 as [|? ? Pb H2]; subst.
    inversion H2 as [|? ? Pd H3]; subst.
    change (flatten_str (Opr op [a; b; d]))
      with (op ++ "(" ++ (flatten_str a ++ ", " ++ flatten_str b ++ ", " ++ flatten_str d) ++ ")").
    change (flatten optok (Opr op [a; b; d]))
      with (optok op :: LP :: (flatten optok a ++ CM :: flatten optok b ++ CM :: flatten optok d) ++ [RP])%list.
    rewrite !sapp_assoc. repeat (rewrite <- app_assoc; simpl app).
    eapply R_tok'; [exact Hop | reflexivity |].
    eapply (R_tok' "("); [exact HL | |].
    { destruct (flatten_str a); reflexivity. }
    change (", " ++ flatten_str b ++ ", " ++ flatten_str d ++ ")" ++ tail)
      with ("," ++ " " ++ flatten_str b ++ "," ++ " " ++ flatten_str d ++ ")" ++ tail).
    eapply Pa; [exact Ha | reflexivity |].
    eapply (R_tok' ","); [exact Hcm | reflexivity |]. apply R_blank.
    eapply Pb; [exact Hb | reflexivity |].
    eapply (R_tok' ","); [exact Hcm | reflexivity |]. apply R_blank.
    eapply Pd; [exact Hd | reflexivity |].
    eapply (R_tok' ")"); eauto.
  - simpl in Hs. contradiction.
Qed.

Lemma sapp_nil_r : forall s : string, s ++ "" = s.
Proof. induction s; simpl; [reflexivity|]. rewrite IHs. reflexivity. Qed.

Variable T : ptable.
Hypothesis Hok : table_ok T = true.
Hypothesis Htab : lex_table_ok rules = true.
Hypothesis Hign : ignore_ok ignore = true.

(* roundtrip at the level of strings: Parser().parse(tree.flatten()) *)
Theorem roundtrip_string : forall t,
  flat_ok T optok t -> sflat t None ->
  parse_string rules reserved values ignore T (flatten_str t) = Some t.
Proof.
  intros t Hf Hs. unfold parse_string, lex_string.
  assert (R : Rendered (flatten_str t) (flatten optok t)).
  { rewrite <- (sapp_nil_r (flatten_str t)), <- (app_nil_r (flatten optok t)).
    eapply sflat_rendered; [exact Hs | reflexivity | constructor]. }
  rewrite (lex_rendered rules reserved values ignore Htab Hign _ _ R).
  apply roundtrip; assumption.
Qed.

(* comments, blanks and line breaks do not matter for the parse *)
Theorem comments_ws_parse : forall s1 s2 ts,
  Rendered s1 ts -> Rendered s2 ts ->
  parse_string rules reserved values ignore T s1
  = parse_string rules reserved values ignore T s2.
Proof.
  intros s1 s2 ts R1 R2. unfold parse_string, lex_string.
  rewrite (lex_rendered rules reserved values ignore Htab Hign _ _ R1).
  rewrite (lex_rendered rules reserved values ignore Htab Hign _ _ R2). reflexivity.
Qed.

End RT.
