(* L2e / EmitProofs: the dispatchers of Emit.v are sound w.r.t. the shallow
   circuits (c_arith's circuits, comparator, ite_connective). *)
From Coq Require Import String ZArith List Bool Lia.
From Omega Require Import L1Circuits.Circuits L1Circuits.CircuitsLengths L1Circuits.Deep
  L1Circuits.DeepProofs L1Circuits.PyBits L2Compile.Expr L2Compile.Emit.
Import ListNotations.

(* the shallow value of flatten_arithmetic's result (c_arith without its
   width guard) *)
Definition arith_value (o : aop) (x y : list bool) : list bool :=
  match o with
  | AAdd => fst (adder_subtractor x y true 1)
  | ASub => fst (adder_subtractor x y false 1)
  | AMul => multiplier x y
  | ADiv => fst (restoring_divider x y)
  | AMod => snd (restoring_divider x y)
  end.

Lemma c_arith_value : forall o x y r, c_arith o x y = Some r -> r = arith_value o x y.
Proof.
  intros o x y r H. destruct o; cbn [c_arith arith_value] in *.
  1-3: match type of H with (if ?c then _ else _) = _ => destruct c; [|discriminate] end;
       now injection H as <-.
  all: match type of H with (if ?c then _ else _) = _ => destruct c; [|discriminate] end;
       destruct (restoring_divider x y); now injection H as <-.
Qed.

Theorem flatten_arithmetic_sound : forall vars o x vx y vy m,
  Forall2 (stable vars m) x vx -> Forall2 (stable vars m) y vy ->
  (1 <= length vx)%nat -> (1 <= length vy)%nat ->
  let '(res, mem) := d_flatten_arithmetic o x y (length m) in
  let m1 := run vars m mem in
  extends m m1 (length mem) /\ Forall2 (stable vars m1) res (arith_value o vx vy).
Proof.
  intros vars o x vx y vy m Hx Hy Lx Ly. destruct o; cbn [d_flatten_arithmetic arith_value].
  - pose proof (adder_sound vars x vx y vy true 1 m Hx Hy) as A.
    destruct (d_adder_subtractor x y true (length m) 1) as [[r mm] cf]. cbv zeta in A |- *. destruct A as (? & ? & ?). auto.
  - pose proof (adder_sound vars x vx y vy false 1 m Hx Hy) as A.
    destruct (d_adder_subtractor x y false (length m) 1) as [[r mm] cf]. cbv zeta in A |- *. destruct A as (? & ? & ?). auto.
  - apply multiplier_sound; assumption.
  - pose proof (divider_sound vars x vx y vy m Hx Hy Lx Ly) as A.
    destruct (d_restoring_divider x y (length m)) as [[quo rem] mm]. cbv zeta in A |- *. destruct A as (? & ? & ?). auto.
  - pose proof (divider_sound vars x vx y vy m Hx Hy Lx Ly) as A.
    destruct (d_restoring_divider x y (length m)) as [[quo rem] mm]. cbv zeta in A |- *. destruct A as (? & ? & ?). auto.
Qed.

(* the buffer returned by flatten_comparator: cells = mem0 ++ new cells,
   evaluated from the empty memory.  If running the old cells mem0 gives the
   memory m in which the operands are stable, the value is the comparison *)
Theorem comparator_buffer_sound : forall vars o x vx y vy mem0 m,
  run vars [] mem0 = m -> length m = length mem0 ->
  Forall2 (stable vars m) x vx -> Forall2 (stable vars m) y vy ->
  buf_value vars (FBuf (py_len (d_comparator_mem o x y mem0)) (d_comparator_mem o x y mem0))
  = Some (comparator o vx vy).
Proof.
  intros vars o x vx y vy mem0 m R L Hx Hy. unfold buf_value, fbuf_cells.
  rewrite Z.eqb_refl. f_equal. unfold d_comparator_mem. rewrite run_app, R, <- L.
  now apply comparator_sound.
Qed.

Theorem ite_connective_sound : forall vars a va b vb c vc,
  stable vars [] a va -> stable vars [va] b vb -> stable vars [va] c vc ->
  buf_value vars (d_ite_connective a b c) = Some (ite_connective va vb vc).
Proof.
  intros vars a va b vb c vc Ha Hb Hc. unfold buf_value, d_ite_connective, fbuf_cells.
  cbn [py_len length Z.of_nat Pos.of_succ_nat Pos.succ Z.eqb Pos.eqb run app last evalx nth].
  f_equal. pose proof (Ha []) as A. cbn [app] in A. rewrite A.
  pose proof (Hb []) as B. pose proof (Hc []) as C. cbn [app] in B, C.
  cbn [app last]. rewrite B, C. unfold ite_connective. reflexivity.
Qed.
