(* L4 / Tables: literal truth tables <-> BDDs-by-meaning, for the
   correspondence cases (tie H).  State index s = (c*nx + x)*ny + y,
   successor index j = x'*ny + y'. *)
From Coq Require Import List Bool Arith.
From Coq Require Export NArith.
Import ListNotations.
From Omega Require Import L4.Arena.

(* compact literals: a list of [len] bools as the bits of an N (little endian);
   elaborating long [true;false;...] literals is what dominates case files *)
Fixpoint bitsN (len : nat) (n : N) : list bool :=
  match len with
  | 0 => []
  | S k => N.odd n :: bitsN k (N.div2 n)
  end.

Section Tables.
Variables nc nx ny : nat.

Definition sidx (v : V) : nat := (vc v * nx + vx v) * ny + vy v.
Definition pidx (v : V) : nat := vxp v * ny + vyp v.

(* relation over (state, next) *)
Definition of_table2 (t : list (list bool)) : bdd :=
  memo nc nx ny (fun v => nth (pidx v) (nth (sidx v) t []) false).
(* state predicate *)
Definition of_table1 (t : list bool) : bdd :=
  memo nc nx ny (fun v => nth (sidx v) t false).

Definition states : list V :=
  flat_map (fun c => flat_map (fun x => map (fun y => mkV c x y 0 0) (seq 0 ny))
    (seq 0 nx)) (seq 0 nc).
Definition nexts (s : V) : list V :=
  flat_map (fun xp => map (fun yp => mkV (vc s) (vx s) (vy s) xp yp) (seq 0 ny)) (seq 0 nx).

Definition to_table1 (u : bdd) : list bool := map u states.
Definition to_table2 (u : bdd) : list (list bool) :=
  map (fun s => map u (nexts s)) states.

Definition tt1 (u : bdd) : list bool := to_table1 u.
Definition tt2 (l : list bdd) := map tt1 l.
Definition tt3 (l : list (list bdd)) := map tt2 l.
Definition tt4 (l : list (list (list bdd))) := map tt3 l.
Definition tt5 (l : list (list (list (list bdd)))) := map tt4 l.

Fixpoint eq1 (a b : list bool) : bool :=
  match a, b with
  | [], [] => true
  | x :: a, y :: b => eqb x y && eq1 a b
  | _, _ => false
  end.
Fixpoint eq2 (a b : list (list bool)) : bool :=
  match a, b with
  | [], [] => true
  | x :: a, y :: b => eq1 x y && eq2 a b
  | _, _ => false
  end.
Fixpoint eq3 (a b : list (list (list bool))) : bool :=
  match a, b with
  | [], [] => true
  | x :: a, y :: b => eq2 x y && eq3 a b
  | _, _ => false
  end.
Fixpoint eq4 (a b : list (list (list (list bool)))) : bool :=
  match a, b with
  | [], [] => true
  | x :: a, y :: b => eq3 x y && eq4 a b
  | _, _ => false
  end.
Fixpoint eq5 (a b : list (list (list (list (list bool))))) : bool :=
  match a, b with
  | [], [] => true
  | x :: a, y :: b => eq4 x y && eq5 a b
  | _, _ => false
  end.

End Tables.
