(* L3 / Naming: the printing of bits as dd variable names
   (bitvector._add_bitnames:  f'{name}_{i}{prime}'; a Boolean variable is its
   own bit).  The L3 model identifies a bit with the pair (variable, index);
   that is faithful exactly when this printing is injective on the declared
   bits, which is what the guard of fixes/F15.patch (Context.add_vars rejects a
   declaration whose bit names meet the bit names already declared) and the
   assertion in bitvector._add_bitnames (same test within one call) maintain. *)
From Coq Require Import List Bool String Ascii DecimalString Decimal Arith.
From Omega Require Import L0Bits.Bits L3Context.Ctx L3Context.Prime.
Import ListNotations.

Definition dec (i : nat) : string := NilEmpty.string_of_uint (Nat.to_uint i).

(* the name of bit i of the integer variable x *)
Definition int_bitname (x : ident) (i : nat) : string :=
  if isprimed x
  then (str_removelast x ++ "_" ++ dec i ++ "'")%string
  else (x ++ "_" ++ dec i)%string.

Definition bit_str (t : tbl) (b : bit) : string :=
  match tlookup (fst b) t with
  | Some (DInt _) => int_bitname (fst b) (snd b)
  | _ => fst b
  end.

Definition bit_names (t : tbl) : list string := map (bit_str t) (all_bits t).

Fixpoint nodup_str (l : list string) : bool :=
  match l with
  | [] => true
  | x :: r => negb (mem String.eqb x r) && nodup_str r
  end.

(* the invariant maintained by the declaration guards *)
Definition naming_injective (t : tbl) : bool := nodup_str (bit_names t).

(* the guard added by fixes/F15.patch to Context.add_vars (and, for one call,
   the assertion of _add_bitnames): new bit names must be fresh *)
Definition add_vars_guard (t newt : tbl) : bool :=
  let old := bit_names t in
  let t' := (t ++ newt)%list in
  forallb (fun n => negb (mem String.eqb n old))
          (map (bit_str t') (all_bits newt)) &&
  nodup_str (map (bit_str t') (all_bits newt)).
