(* L5Cover / MinCoverBounded3L: as MinCoverBounded.v with pick = last element
   (the result of cover.minimize depends on dd's pick; the model is checked
   with two different picks on the whole domain). *)
From Coq Require Import List ZArith NArith Bool Lia.
Import ListNotations.
From Omega Require Import L5Cover.Boxes L5Cover.BoxesProofs L5Cover.MinCover
  L5Cover.MinCoverProofs L5Cover.MinCoverBounded.
Open Scope Z_scope.

Lemma all3_last : all3 pick_last = true.
Proof. vm_compute. reflexivity. Qed.

Theorem minimize_min_bounded_3_last :
  forall fm cm, (fm < 256)%N -> (cm < 256)%N ->
  exists K, minimize rs3 pick_last (fun_of_mask fm) (fun_of_mask cm) = Some K /\
            min_prime_cover rs3 (fun_of_mask fm) (fun_of_mask cm) K.
Proof. exact (all3_correct pick_last all3_last). Qed.
