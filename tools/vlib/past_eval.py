"""C15: run the real omega.logic.past.translate, parse what it returns with the
real parser, solve the testers along every sequence of valuations and compare
with the direct anchored past semantics (independent oracle).

Nothing here knows how `translate` works: the initial condition and the
transition relation are treated as arbitrary Boolean formulas over current
and primed variables and are solved by exhaustive search over the auxiliary
variables (pruned conjunct by conjunct).
"""
import itertools


# ------------------------------------------------------------ real code
_PARSER = None


def parser():
    global _PARSER
    if _PARSER is None:
        from omega.logic import lexyacc
        _PARSER = lexyacc.Parser()
    return _PARSER


class Unsupported(Exception):
    pass


_BIN = {'/\\': '/\\', '\\/': '\\/', '=>': '=>', '<=>': '<=>', '^': '^'}


def from_tree(t):
    """omega.logic.ast tree -> action-formula tuple
    ('v', x) ('c', b) ('~', f) ("'", f) (binop, f, g) ('ite', c, a, b)
    ('[]', f) ('<>', f) ('U', f, g)."""
    if hasattr(t, 'operator'):
        op, xs = t.operator, t.operands
        if op == 'X' and len(xs) == 1:
            return ("'", from_tree(xs[0]))
        if op == '~' and len(xs) == 1:
            return ('~', from_tree(xs[0]))
        if op in _BIN and len(xs) == 2:
            return (op, from_tree(xs[0]), from_tree(xs[1]))
        if op == 'ite' and len(xs) == 3:
            return ('ite',) + tuple(from_tree(x) for x in xs)
        if op in ('[]', '<>') and len(xs) == 1:
            return (op, from_tree(xs[0]))
        if op == 'U' and len(xs) == 2:
            return ('U', from_tree(xs[0]), from_tree(xs[1]))
        raise Unsupported(f'operator {op!r} in translated formula')
    if t.type == 'bool':
        v = t.value.upper()
        assert v in ('TRUE', 'FALSE'), t.value
        return ('c', v == 'TRUE')
    if t.type == 'var':
        return ('v', t.value)
    raise Unsupported(f'terminal {t.value!r} of type {t.type!r}')


def run_translate(s, until=False):
    """Call the real translate on string s; parse every returned string."""
    from omega.logic import past
    dvars, r, init, trans, win = past.translate(s, until=until)
    p = parser()
    return dict(
        source=s, until=until,
        names=list(dvars),
        types={k: d.get('type') for k, d in dvars.items()},
        strings=dict(formula=r, init=init, trans=trans, win=list(win)),
        formula=from_tree(p.parse(r)),
        init=from_tree(p.parse(init)),
        trans=from_tree(p.parse(trans)),
        win=[from_tree(p.parse(w)) for w in win])


# ----------------------------------------------------- evaluating actions
def conjuncts(t):
    if t[0] == '/\\':
        return conjuncts(t[1]) + conjuncts(t[2])
    return [t]


def support(t, primed=False, acc=None):
    """Set of (name, primed) pairs read by t."""
    if acc is None:
        acc = set()
    k = t[0]
    if k == 'v':
        acc.add((t[1], primed))
    elif k == 'c':
        pass
    elif k == "'":
        support(t[1], True, acc)
    else:
        for x in t[1:]:
            support(x, primed, acc)
    return acc


def temporal_free(t):
    if t[0] in ('[]', '<>', 'U'):
        return False
    if t[0] in ('v', 'c'):
        return True
    return all(temporal_free(x) for x in t[1:])


def compile_action(t, index):
    """Python function (cur, nxt) -> bool; cur/nxt are tuples indexed by
    `index[name]`.  A primed subformula is read in nxt."""
    def go(t, primed):
        k = t[0]
        if k == 'v':
            return f'{"n" if primed else "c"}[{index[t[1]]}]'
        if k == 'c':
            return 'True' if t[1] else 'False'
        if k == '~':
            return f'(not {go(t[1], primed)})'
        if k == "'":
            return go(t[1], True)
        if k == '/\\':
            return f'({go(t[1], primed)} and {go(t[2], primed)})'
        if k == '\\/':
            return f'({go(t[1], primed)} or {go(t[2], primed)})'
        if k == '=>':
            return f'((not {go(t[1], primed)}) or {go(t[2], primed)})'
        if k == '<=>':
            return f'({go(t[1], primed)} == {go(t[2], primed)})'
        if k == '^':
            return f'({go(t[1], primed)} != {go(t[2], primed)})'
        if k == 'ite':
            return (f'({go(t[2], primed)} if {go(t[1], primed)} '
                    f'else {go(t[3], primed)})')
        raise Unsupported(f'temporal operator {k!r} in an action')
    return eval('lambda c, n: ' + go(t, False), {})


# ------------------------------------------------------ direct semantics
def sem(f, tr, i, memo=None):
    """Anchored past semantics of f at position i of the sequence tr (list of
    dicts); the declarative clauses (exists/forall over positions)."""
    if memo is not None:
        key = (id(f), i)
        if key in memo:
            return memo[key]
    k = f[0]
    if k == 'v':
        r = tr[i][f[1]]
    elif k == 'c':
        r = f[1]
    elif k == '~':
        r = not sem(f[1], tr, i, memo)
    elif k == 'ite':
        r = (sem(f[2], tr, i, memo) if sem(f[1], tr, i, memo)
             else sem(f[3], tr, i, memo))
    elif k == '-X':
        r = True if i == 0 else sem(f[1], tr, i - 1, memo)
    elif k == '--X':
        r = False if i == 0 else sem(f[1], tr, i - 1, memo)
    elif k == '-[]':
        r = all(sem(f[1], tr, j, memo) for j in range(i + 1))
    elif k == '-<>':
        r = any(sem(f[1], tr, j, memo) for j in range(i + 1))
    elif k == 'S':
        r = any(sem(f[2], tr, j, memo) and
                all(sem(f[1], tr, m, memo) for m in range(j + 1, i + 1))
                for j in range(i + 1))
    else:
        a, b = sem(f[1], tr, i, memo), sem(f[2], tr, i, memo)
        if k == '/\\':
            r = a and b
        elif k == '\\/':
            r = a or b
        elif k == '=>':
            r = (not a) or b
        elif k == '<=>':
            r = a == b
        elif k == '^':
            r = a != b
        else:
            raise Unsupported(k)
    if memo is not None:
        memo[key] = r
    return r


# ------------------------------------------------------------- the solver
class Problem:
    """Testers returned by the real code for one formula, prepared for
    solving along sequences of valuations of `uservars`."""

    def __init__(self, out, uservars):
        self.out = out
        self.uservars = list(uservars)
        self.aux = list(out['names'])
        clash = set(self.aux) & set(self.uservars)
        assert not clash, clash
        self.all = self.uservars + self.aux
        self.index = {v: i for i, v in enumerate(self.all)}
        nu = len(self.uservars)
        for part in ('init', 'trans', 'formula'):
            for (v, _) in support(out[part]):
                if v not in self.index:
                    raise Unsupported(f'unknown variable {v!r} in {part}')
        # conjuncts of the initial condition, by the last aux var they read
        self.init_c = self._layer(conjuncts(out['init']), primed=False)
        self.trans_c = self._layer(conjuncts(out['trans']), primed=True)
        self.formula = compile_action(out['formula'], self.index)
        self.nu = nu
        self.step_cache = {}
        self.init_cache = {}

    def _layer(self, cs, primed):
        """layers[j] = conjuncts that can be evaluated once the first j
        auxiliary unknowns are assigned (unknowns: the aux variables of the
        current state for init, of the next state for trans)."""
        nu = len(self.uservars)
        layers = [[] for _ in range(len(self.aux) + 1)]
        for c in cs:
            last = 0
            for (v, p) in support(c):
                i = self.index[v]
                if i >= nu and p == primed:
                    last = max(last, i - nu + 1)
                if not primed and p:
                    raise Unsupported('primed variable in initial condition')
            layers[last].append(compile_action(c, self.index))
        return layers

    def _search(self, layers, fixed_cur, user_unknown, limit=2):
        """All assignments of the unknown aux vector (list of tuples)."""
        k = len(self.aux)
        sols = []

        def rec(j, partial):
            if len(sols) >= limit:
                return
            # evaluate the conjuncts that became ready
            vec = user_unknown + tuple(partial) + (False,) * (k - j)
            if fixed_cur is None:
                cur, nxt = vec, vec
            else:
                cur, nxt = fixed_cur, vec
            for c in layers[j]:
                if not c(cur, nxt):
                    return
            if j == k:
                sols.append(tuple(partial))
                return
            for b in (False, True):
                rec(j + 1, partial + [b])
        rec(0, [])
        return sols

    def solve_init(self, u0):
        key = u0
        if key not in self.init_cache:
            self.init_cache[key] = self._search(self.init_c, None, u0)
        return self.init_cache[key]

    def solve_step(self, cur, u1):
        key = (cur, u1)
        if key not in self.step_cache:
            self.step_cache[key] = self._search(self.trans_c, cur, u1)
        return self.step_cache[key]


def explore(prob, f, maxlen, on_node=None, memo_sem=True):
    """Depth-first over all sequences of valuations up to length maxlen.

    At every sequence checks that the testers have exactly one solution and
    that the translated formula has the truth value of f at the last
    position.  Returns (failure or None, statistics).  failure is a dict with
    the sequence, what went wrong, expected and observed values."""
    nu = prob.nu
    vals = list(itertools.product((False, True), repeat=nu))
    stats = dict(sequences=0, true=0, false=0, max_aux=len(prob.aux))
    trace, sol = [], []
    memo = {}

    def fail(kind, **kw):
        return dict(kind=kind,
                    trace=[dict(zip(prob.uservars, u)) for u in trace],
                    **kw)

    def rec():
        i = len(trace)
        for u in vals:
            trace.append(u)
            if i == 0:
                nxt = prob.solve_init(u)
            else:
                nxt = prob.solve_step(trace[i - 1] + sol[i - 1], u)
            if len(nxt) != 1:
                f_ = fail('no-solution' if not nxt else 'several-solutions',
                          position=i, candidates=[list(a) for a in nxt],
                          solution_so_far=[list(a) for a in sol])
                trace.pop()
                return f_
            sol.append(nxt[0])
            state = u + nxt[0]
            got = prob.formula(state, state)
            trd = [dict(zip(prob.uservars, w)) for w in trace]
            # drop memo entries of the position being recomputed
            if memo_sem:
                for key in [k for k in memo if k[1] >= i]:
                    del memo[key]
            want = sem(f, trd, i, memo if memo_sem else None)
            stats['sequences'] += 1
            stats['true' if want else 'false'] += 1
            if on_node is not None:
                on_node(list(trace), list(sol), got, want)
            if got != want:
                f_ = fail('wrong-truth-value', position=i, expected=want,
                          got=got, solution=[list(a) for a in sol])
                sol.pop()
                trace.pop()
                return f_
            if i + 1 < maxlen:
                r = rec()
                if r is not None:
                    sol.pop()
                    trace.pop()
                    return r
            sol.pop()
            trace.pop()
        return None
    return rec(), stats


def solve_one(prob, f, trace_dicts):
    """Solution and truth values along one given sequence (list of dicts):
    returns (solution rows, truth values of the translated formula, truth
    values of f) or raises ValueError when the solution is not unique."""
    sol, got, want = [], [], []
    us = [tuple(d[v] for v in prob.uservars) for d in trace_dicts]
    for i, u in enumerate(us):
        nxt = (prob.solve_init(u) if i == 0
               else prob.solve_step(us[i - 1] + sol[i - 1], u))
        if len(nxt) != 1:
            raise ValueError((i, nxt))
        sol.append(nxt[0])
        st = u + nxt[0]
        got.append(prob.formula(st, st))
        want.append(sem(f, trace_dicts, i))
    return sol, got, want
