"""Instances of the covering problem on the real `omega` (C08/C09/C10).

An instance is JSON-able:

    dict(decl={name: [lo, hi]},      # type hints
         f=[[v1, ..., vn], ...],     # points of the predicate (bit-range grid)
         care=None | [[...], ...],   # None = TRUE
         backend='autoref'|'cudd')

Points are tuples of integers in the order of `names(inst)` (natural sort).
Values range over the whole *bit-field* of each variable (so predicates may
protrude from the type hints).  BDDs are built and read back at the bit level
of `dd` with an own two's-complement encoding (not omega's refinement code).
"""
import itertools
import logging
import traceback

logging.disable(logging.CRITICAL)

import omega.symbolic.fol as _fol  # noqa: E402
import omega.symbolic.cover as cov  # noqa: E402
import omega.symbolic.cover_enum as cov_enum  # noqa: E402
import omega.symbolic.orthotopes as lat  # noqa: E402


# three hint shapes: non-negative, sign-crossing, all-negative
SHAPES = {
    'nonneg': [(0, 1), (0, 2), (0, 3), (1, 3), (0, 1), (0, 5)],
    'cross': [(-1, 0), (-1, 1), (-2, 1), (-1, 2)],
    'neg': [(-2, -1), (-3, -1), (-4, -1), (-4, -2)],
}


def names(inst):
    return sorted(inst['decl'])


def new_context(decl, backend='autoref'):
    ctx = _fol.Context()
    if backend == 'autoref':
        import dd.autoref as _bdd
    elif backend == 'cudd':
        import dd.cudd as _bdd
    else:
        raise ValueError(backend)
    ctx.bdd = _bdd.BDD()
    ctx.declare(**{k: tuple(v) for k, v in decl.items()})
    return ctx


def limits_of(d):
    """Bit-field limits (lo, hi) from a symbol-table entry (own formula)."""
    w = d['width']
    if d['signed']:
        return (-2 ** (w - 1), 2 ** (w - 1) - 1)
    lo, hi = d['dom']
    if lo >= 0:
        return (0, 2 ** w - 1)
    return (-2 ** w, -1)


def value_bits(name, d, val):
    w = d['width']
    if d['signed']:
        u = val % (2 ** w)
    else:
        lo, hi = d['dom']
        u = val if lo >= 0 else val + 2 ** w
    assert 0 <= u < 2 ** w, (name, val, d)
    return {f'{name}_{i}': bool((u >> i) & 1) for i in range(w)}


def bits_value(name, d, a):
    w = d['width']
    u = sum((1 << i) for i in range(w) if a[f'{name}_{i}'])
    if d['signed']:
        return u - 2 ** w if u >= 2 ** (w - 1) else u
    lo, hi = d['dom']
    return u if lo >= 0 else u - 2 ** w


class LimitsDiffer(Exception):
    pass


class Problem:
    """A context with f and care built from an instance."""

    def __init__(self, inst):
        self.inst = inst
        self.names = names(inst)
        self.ctx = new_context(inst['decl'], inst.get('backend', 'autoref'))
        ctx = self.ctx
        for n in self.names:
            assert ctx.vars[n]['bitnames'] == [
                f'{n}_{i}' for i in range(ctx.vars[n]['width'])]
        self.limits = [limits_of(ctx.vars[n]) for n in self.names]
        own = [own_limits(*inst['decl'][n]) for n in self.names]
        if own != self.limits:
            raise LimitsDiffer(f'bit-field limits {self.limits} differ from '
                               f'the expected {own} for {inst["decl"]}')
        self.doms = [tuple(inst['decl'][n]) for n in self.names]
        self.f = self.bdd_of(inst['f'])
        self.care = (ctx.bdd.true if inst['care'] is None
                     else self.bdd_of(inst['care']))

    def grid(self):
        return list(itertools.product(
            *[range(a, b + 1) for a, b in self.limits]))

    def bdd_of(self, pts):
        ctx = self.ctx
        u = ctx.bdd.false
        for p in pts:
            bits = {}
            for n, v in zip(self.names, p):
                bits.update(value_bits(n, ctx.vars[n], v))
            u |= ctx.bdd.cube(bits)
        return u

    def support_names(self):
        """Variables on which f or care depend (own computation)."""
        inst = self.inst
        g = self.grid()
        fs = set(map(tuple, inst['f']))
        cs = None if inst['care'] is None else set(map(tuple, inst['care']))
        dep = []
        for i, n in enumerate(self.names):
            d = False
            for s in (fs, cs):
                if s is None:
                    continue
                proj = {}
                for p in g:
                    key = p[:i] + p[i + 1:]
                    proj.setdefault(key, set()).add(p in s)
                if any(len(v) > 1 for v in proj.values()):
                    d = True
            if d:
                dep.append(n)
        return dep

    def read_boxes(self, u, proper_only=False):
        """Set of boxes (tuple of (a, b) per name) denoted by the BDD `u`
        over the parameters a_x, b_x; variables outside the lattice get the
        whole bit-field."""
        ctx = self.ctx
        prm = lat.setup_aux_vars(self.f, self.care, ctx)
        xs = sorted(prm.x_vars)
        pnames = []
        for x in xs:
            pnames += [prm._px[x]['a'], prm._px[x]['b']]
        bitnames = []
        for pn in pnames:
            bitnames += ctx.vars[pn]['bitnames']
        sup = ctx.bdd.support(u)
        extra = set(sup) - set(bitnames)
        assert not extra, ('cover depends on non-parameter bits', extra)
        out = set()
        for a in ctx.bdd.pick_iter(u, care_vars=bitnames):
            box = []
            for n, lim in zip(self.names, self.limits):
                if n in prm.x_vars:
                    lo = bits_value(prm._px[n]['a'],
                                    ctx.vars[prm._px[n]['a']], a)
                    hi = bits_value(prm._px[n]['b'],
                                    ctx.vars[prm._px[n]['b']], a)
                    box.append((lo, hi))
                else:
                    box.append(tuple(lim))
            out.add(tuple(box))
        return out, xs


def describe_exception(e):
    tb = traceback.extract_tb(e.__traceback__)
    frames = [(t.name, t.lineno, t.filename.rsplit('/', 1)[-1]) for t in tb]
    return dict(type=type(e).__name__, msg=str(e)[:300], frames=frames[-6:],
                functions=[t.name for t in tb])


def run_minimize(inst):
    """cover.minimize on the real code -> (sorted list of boxes, lattice vars)
    or raises."""
    pb = Problem(inst)
    c = cov.minimize(pb.f, pb.care, pb.ctx)
    boxes, xs = pb.read_boxes(c)
    return sorted(boxes), xs, pb


def run_cyclic_core(inst):
    pb = Problem(inst)
    xcore, ycore, ess = cov.cyclic_core(pb.f, pb.care, pb.ctx)
    out = []
    for u in (xcore, ycore, ess):
        b, xs = pb.read_boxes(u)
        out.append(sorted(b))
    return out, xs, pb


def run_enum(inst):
    """cover_enum.minimize -> list of sorted lists of boxes."""
    pb = Problem(inst)
    cs = cov_enum.minimize(pb.f, pb.care, pb.ctx)
    res = []
    for c in cs:
        b, xs = pb.read_boxes(c)
        res.append(sorted(b))
    return sorted(res), xs, pb


# ------------------------------------------------------------------ generators
def instance(decl, f, care, backend='autoref'):
    return dict(decl={k: list(v) for k, v in decl.items()},
                f=[list(p) for p in f],
                care=None if care is None else [list(p) for p in care],
                backend=backend)


def valid(inst, grid):
    """Inside the quantifier of C08-C10 and accepted by the library:
    f and care non-empty, not both TRUE."""
    if not inst['f']:
        return False
    if inst['care'] is not None and not inst['care']:
        return False
    full_f = len(inst['f']) == len(grid)
    full_c = inst['care'] is None or len(inst['care']) == len(grid)
    if full_f and full_c:
        return False
    return True


def grid_of_decl(decl):
    """Bit-range grid of a declaration without building BDDs (own formula
    for the width; cross-checked against the library in Problem)."""
    lims = []
    for n in sorted(decl):
        lo, hi = decl[n]
        lims.append(own_limits(lo, hi))
    return lims, list(itertools.product(
        *[range(a, b + 1) for a, b in lims]))


def own_limits(lo, hi):
    """Bit-field range of a variable declared with hint (lo, hi): width is
    the bit length of the larger magnitude (at least 1), plus a sign bit when
    the hint crosses zero; all-negative hints use an unsigned field shifted
    below zero.  Cross-checked against the library's symbol table in
    `Problem` (the width rule itself is property C18's subject)."""
    w = max(1, max(abs(lo), abs(hi)).bit_length())
    if lo < 0 <= hi:
        return (-2 ** w, 2 ** w - 1)
    if lo >= 0:
        return (0, 2 ** w - 1)
    return (-2 ** w, -1)


def boolean_instance(nv, fmask, cmask=None, backend='autoref'):
    """Function of nv two-valued (0..1) variables from truth-table masks."""
    ns = ['x', 'y', 'z', 'w'][:nv]
    pts = list(itertools.product([0, 1], repeat=nv))
    f = [p for i, p in enumerate(pts) if fmask >> i & 1]
    care = None if cmask is None else [
        p for i, p in enumerate(pts) if cmask >> i & 1]
    return instance({n: (0, 1) for n in ns}, f, care, backend)


def random_instance(rng, max_points=64, nvars=None, backend='autoref',
                    f_in_care=None):
    """1-4 integer variables in the three hint shapes; f and care random
    subsets of the bit-range grid."""
    while True:
        nv = nvars or rng.choice([1, 2, 2, 3, 3, 4])
        ns = ['x', 'y', 'z', 'w'][:nv]
        decl = {}
        for n in ns:
            shape = rng.choice(['nonneg', 'nonneg', 'cross', 'neg'])
            decl[n] = rng.choice(SHAPES[shape])
        lims, grid = grid_of_decl(decl)
        if len(grid) <= max_points:
            break
    hint_pts = [p for p in grid
                if all(decl[n][0] <= v <= decl[n][1]
                       for n, v in zip(sorted(decl), p))]
    mode = rng.choice(['true', 'hints', 'random', 'random', 'subhints'])
    if mode == 'true':
        care = None
    elif mode == 'hints':
        care = hint_pts
    elif mode == 'subhints':
        d = rng.choice([0.5, 0.8])
        care = [p for p in hint_pts if rng.random() < d] or hint_pts[:1]
    else:
        d = rng.choice([0.5, 0.8, 0.95])
        care = [p for p in grid if rng.random() < d] or grid[:1]
    d = rng.choice([0.2, 0.4, 0.6, 0.8])
    f = [p for p in grid if rng.random() < d]
    if nv > 1 and rng.random() < 0.15:
        # f independent of one variable (a cylinder); care still depends on it
        j = rng.randrange(nv)
        base = {p[:j] + p[j + 1:] for p in f if rng.random() < 0.6}
        f = [p for p in grid if p[:j] + p[j + 1:] in base]
    if f_in_care is None:
        f_in_care = rng.random() < 0.75
    if f_in_care and care is not None:
        cs = set(care)
        f = [p for p in f if p in cs]
    if not f:
        f = [(care or grid)[0]]
    inst = instance(decl, f, care, backend)
    if not valid(inst, grid):
        return random_instance(rng, max_points, nvars, backend, f_in_care)
    return inst
