(* Hand-written model of gr1.make_streett_transducer and make_rabin_transducer
   (tie H: compared with the real code's action['impl'] / init['impl'] truth
   tables on every run), built on the GENERATED _controllable_action, step and
   _make_init.

   Arena: the component's valuations are extended by the memory the
   transducer declares.  A component valuation index is  y = yb * M + m
   where yb is the valuation of the original component variables and m the
   memory value; for Streett M = G (values of `_goal` in its bit range), for
   Rabin M = H * G with m = h * G + g (`_hold` then `_goal`).  Predicates of
   the original game are lifted ([lift]) so that they ignore the memory. *)
From Coq Require Import List Bool Arith Lia.
Import ListNotations.
From Omega Require Import L4.Arena.
From OmegaGen Require Import FixpointGen Gr1Gen.


(* base-arena BDD read in the extended arena (memory ignored).  Not
   tabulated: the operations that consume a lifted BDD tabulate their results,
   and the base BDD is tabulated already.  (nc nx ny are unused; they keep the
   call sites uniform.) *)
Definition lift (nc nx ny M : nat) (u : bdd) : bdd :=
  fun v => u (mkV (vc v) (vx v) (vy v / M) (vxp v) (vyp v / M)).

Section StreettT.
Variables nc nx ny G : nat.          (* G = 2 ^ width of `_goal` *)
Variables E S : bdd.                 (* already lifted *)
Variables holds goals : list bdd.    (* already lifted *)
Variables moore plus_one : bool.

Local Notation nyE := (ny * G).
Local Notation band := (Arena.band nc nx nyE).
Local Notation bor := (Arena.bor nc nx nyE).
Local Notation bnot := (Arena.bnot nc nx nyE).
Local Notation forall_ := (Arena.forall_ nc nx nyE).
Local Notation memo := (Arena.memo nc nx nyE).
Local Notation ca := (Gr1Gen.controllable_action nc nx nyE E S moore plus_one 0).

Definition cnt (v : V) : nat := vy v mod G.
Definition cntp (v : V) : nat := vyp v mod G.
(* (c = i) /\ (c' = ip) *)
Definition count_eq (i ip : nat) : bdd :=
  memo (fun v => Nat.eqb (cnt v) i && Nat.eqb (cntp v) ip).

Definition rho_1 (z : bdd) : bdd :=
  let n := length goals in
  let to_next_goal :=
    fold_left (fun acc '(i, goal) =>
      bor acc (band (count_eq i ((i + 1) mod n)) goal))
      (enumerate 0 goals) bfalse in
  ca z (Some to_next_goal).

Definition rho_2 (yij : list (list bdd)) : bdd :=
  fold_left (fun rho_2 '(i, yj) =>
    let count := count_eq i i in
    let basin0 := hd bfalse yj in
    let '(rho_2j, basin) :=
      fold_left (fun '(r, basin) y =>
        let ystar := ca basin None in
        let rim := band y (bnot basin) in
        (bor r (band rim ystar), bor basin y))
        (tl yj) (bfalse, basin0) in
    bor rho_2 (band rho_2j count))
    (enumerate 0 yij) bfalse.

Definition rho_3 (xijk : list (list (list bdd))) : bdd :=
  fold_left (fun rho_3 '(i, xjk) =>
    let count := count_eq i i in
    let '(used, rho_3j) :=
      fold_left (fun '(used, r) xk =>
        fold_left (fun '(used, r) '(x, hold) =>
          let xstar := ca x None in
          let stay := band x (bnot used) in
          let used := bor used x in
          (used, bor r (band (band stay xstar) hold)))
          (combine xk holds) (used, r))
        xjk (bfalse, bfalse) in
    bor rho_3 (band rho_3j count))
    (enumerate 0 xijk) bfalse.

Definition streett_action (z : bdd) (yij : list (list bdd))
    (xijk : list (list (list bdd))) : bdd :=
  let u := bor (bor (rho_1 z) (rho_2 yij)) (rho_3 xijk) in
  let c_max := length goals - 1 in
  let u := band u (memo (fun v => Nat.leb (cnt v) c_max)) in
  let u := if negb plus_one then
             let u := bor u (bnot E) in
             if moore then forall_ [Envp] u else u
           else u in
  u.

Definition streett_init_count : bdd := memo (fun v => Nat.eqb (cnt v) 0).

End StreettT.

Section RabinT.
Variables nc nx ny H G : nat.   (* H, G: numbers of values of `_hold`, `_goal` *)
Variables E S : bdd.
Variables holds goals : list bdd.
Variables moore plus_one : bool.

Local Notation M := (H * G).
Local Notation nyE := (ny * M).
Local Notation band := (Arena.band nc nx nyE).
Local Notation bor := (Arena.bor nc nx nyE).
Local Notation bnot := (Arena.bnot nc nx nyE).
Local Notation forall_ := (Arena.forall_ nc nx nyE).
Local Notation memo := (Arena.memo nc nx nyE).
Local Notation ca := (Gr1Gen.controllable_action nc nx nyE E S moore plus_one 0).
Local Notation step := (FixpointGen.step nc nx nyE moore plus_one 0).

Definition rg (v : V) : nat := (vy v mod M) mod G.       (* _goal *)
Definition rh (v : V) : nat := (vy v mod M) / G.         (* _hold *)
Definition rgp (v : V) : nat := (vyp v mod M) mod G.
Definition rhp (v : V) : nat := (vyp v mod M) / G.
Definition mp (f : V -> bool) : bdd := memo f.

(* the action, handed to a continuation (the code goes on under the two
   destructuring lets; see TransducerBridge.v) *)
Definition rabin_action_k {T : Type} (k : bdd -> T) (zk : list bdd)
    (yki : list (list bdd)) (xkijr : list (list (list (list bdd)))) : T :=
  let n_holds := length holds in
  let n_goals := length goals in
  let none := n_holds in
  (* rho_1: descent in persistence basin.  Starts from the EMPTY basin and
     runs over every z of zk (the code as repaired, finding F3: level 0 is
     served too, by steps out of cpre(FALSE)) *)
  let count1 := mp (fun v => Nat.eqb (rgp v) (rg v) && Nat.eqb (rhp v) none) in
  let '(rho_1, _) :=
    fold_left (fun '(r, basin) z =>
      let zstar := ca basin None in
      let rim := band z (bnot basin) in
      (bor r (band (band rim zstar) count1), z))
      zk (bfalse, bfalse) in
  let '(rho_2, rho_3, rho_4, _) :=
    fold_left (fun '(rho_2, rho_3, rho_4, basin) '(z, yi, xijr) =>
      let cox_basin := step E S basin in
      let rim := band (band z (bnot basin)) (bnot cox_basin) in
      (* rho_2: pick persistence set *)
      let count := mp (fun v => Nat.eqb (rgp v) (rg v) && Nat.eqb (rh v) none) in
      let u := band rim count in
      let v2 := fold_left (fun acc '(i, y) =>
                  bor acc (band (mp (fun v => Nat.eqb (rhp v) i)) (ca y None)))
                  (enumerate 0 yi) bfalse in
      let rho_2 := bor rho_2 (band u v2) in
      (* rho_3: descent in recurrence basin *)
      let count := mp (fun v => Nat.eqb (rgp v) (rg v) && negb (Nat.eqb (rh v) none)
                                && Nat.eqb (rhp v) (rh v)) in
      let u := band rim count in
      let v3 := fold_left (fun acc '(i, xjr) =>
                  fold_left (fun acc '(j, (xr, goal)) =>
                    let cnt := mp (fun v => Nat.eqb (rg v) j && Nat.eqb (rh v) i) in
                    let '(p, _) :=
                      fold_left (fun '(p, x_basin) x =>
                        let xstar := ca x_basin None in
                        let q := band (band xstar (bnot x_basin)) x in
                        (bor p q, x))
                        (tl xr) (bfalse, hd bfalse xr) in
                    let p := band (band p cnt) (bnot goal) in
                    bor acc p)
                    (enumerate 0 (combine xjr goals)) acc)
                  (enumerate 0 xijr) bfalse in
      let rho_3 := bor rho_3 (band u v3) in
      (* rho_4: advance to next recurrence goal *)
      let u := fold_left (fun acc '(j, goal) =>
                 bor acc (band (mp (fun v => Nat.eqb (rg v) j
                                   && Nat.eqb (rgp v) ((j + 1) mod n_goals))) goal))
                 (enumerate 0 goals) bfalse in
      let count := mp (fun v => negb (Nat.eqb (rh v) none) && Nat.eqb (rhp v) (rh v)) in
      let u := band (band u count) rim in
      let u := ca btrue (Some u) in
      let v4 := fold_left (fun acc '(i, y) =>
                  bor acc (band (mp (fun v => Nat.eqb (rh v) i)) (ca y None)))
                  (enumerate 0 yi) bfalse in
      let rho_4 := bor rho_4 (band u v4) in
      (rho_2, rho_3, rho_4, z))
      (combine (combine zk yki) xkijr) (bfalse, bfalse, bfalse, bfalse) in
  let u := bor (bor (bor rho_1 rho_2) rho_3) rho_4 in
  let u := band u (mp (fun v => Nat.leb (rh v) n_holds && Nat.leb (rg v) (n_goals - 1))) in
  let u := if negb plus_one then
             let u := bor u (bnot E) in
             if moore then forall_ [Envp] u else u
           else u in
  k u.

Definition rabin_action : list bdd -> list (list bdd) ->
    list (list (list (list bdd))) -> bdd := rabin_action_k (fun u => u).

Lemma rabin_action_k_eq {T} (k : bdd -> T) zk yki xkijr :
  rabin_action_k k zk yki xkijr = k (rabin_action zk yki xkijr).
Proof.
  unfold rabin_action, rabin_action_k. cbv zeta.
  destruct (fold_left _ zk _) as [rho_1 b1].
  destruct (fold_left _ (combine (combine zk yki) xkijr) _) as [[[r2 r3] r4] b2].
  reflexivity.
Qed.

Definition rabin_init_count : bdd :=
  mp (fun v => Nat.eqb (rg v) 0 && Nat.eqb (rh v) (length holds)).

End RabinT.
