(* L1p / PyBits: the Python values and list/int operations that the
   translator tools/py2coq_bitvector.py targets when it turns the circuit
   layer of omega/logic/bitvector.py into Gallina (coq/gen/BitvectorGen.v).

     Python int            Z
     list of bit formulas  list bx   (Deep.bx: the prefix-syntax tree)
     exceptions            option    (AssertionError, ValueError, IndexError,
                                      TypeError all read as None)
     a buffer "$ n c1..cn" fbuf

   Indexing and slicing follow Python: negative indices count from the end,
   an index out of range raises, slice bounds are clamped.  No proofs here
   (see PyBitsProofs.v). *)
From Coq Require Import ZArith List Bool.
From Omega Require Import L1Circuits.Circuits L1Circuits.Deep.
Import ListNotations.
Open Scope Z_scope.

(* len(l) *)
Definition py_len {A} (l : list A) : Z := Z.of_nat (length l).

(* n * l  and  l * n  (a negative count gives the empty list) *)
Definition py_repeat {A} (n : Z) (l : list A) : list A :=
  concat (repeat l (Z.to_nat n)).

(* l[i] *)
Definition py_index {A} (l : list A) (i : Z) : option A :=
  let j := if i <? 0 then i + py_len l else i in
  if j <? 0 then None else nth_error l (Z.to_nat j).

(* slice bound i of l, clamped as Python does *)
Definition py_clamp {A} (l : list A) (i : Z) : nat :=
  let j := if i <? 0 then i + py_len l else i in
  Z.to_nat (Z.min (Z.max j 0) (py_len l)).

(* l[:n] and l[n:] *)
Definition py_slice_to {A} (l : list A) (n : Z) : list A := firstn (py_clamp l n) l.
Definition py_slice_from {A} (l : list A) (n : Z) : list A := skipn (py_clamp l n) l.

(* enumerate(l), counting from i *)
Fixpoint py_enum_from {A} (i : Z) (l : list A) : list (Z * A) :=
  match l with
  | [] => []
  | x :: r => (i, x) :: py_enum_from (i + 1) r
  end.
Definition py_enumerate {A} (l : list A) : list (Z * A) := py_enum_from 0 l.

(* for x in l: s = body(x, s)   (an exception in the body ends the loop) *)
Fixpoint py_for {A S} (l : list A) (s : S) (body : A -> S -> option S) : option S :=
  match l with
  | [] => Some s
  | x :: r => match body x s with
              | Some s' => py_for r s' body
              | None => None
              end
  end.

(* [f(x) for x in l] where f may raise *)
Fixpoint py_mapM {A B} (f : A -> option B) (l : list A) : option (list B) :=
  match l with
  | [] => Some []
  | x :: r => match f x with
              | Some y => match py_mapM f r with
                          | Some ys => Some (y :: ys)
                          | None => None
                          end
              | None => None
              end
  end.

(* the text "? k" is a register only for k >= 0 (for a negative k Python
   formats "? -3", which is not prefix syntax: read as failure) *)
Definition py_reg (k : Z) : option bx :=
  if k <? 0 then None else Some (XR (Z.to_nat k)).

(* p == q on lists of formulas *)
Definition py_bits_eqb (p q : list bx) : bool := bxs_eqb p q.

(* the text "$ n c1 ... ck" (n as printed, the cells as joined) *)
Inductive fbuf := FBuf (n : Z) (cells : list bx).

(* well-formed buffer: the printed count is the number of cells *)
Definition fbuf_cells (b : fbuf) : option (list bx) :=
  match b with FBuf n cells => if n =? py_len cells then Some cells else None end.
