#!/bin/bash
# Build hand-written theories (coq/theories/**) with coq_makefile.
# usage: coqbuild.sh [target.vo ...]   (no targets = everything)
# Called with cwd = /verif/coq, under a lock held by the caller.
{ cat _CoqProject.in; find theories -name '*.v' | sort; } > _CoqProject.new
if ! cmp -s _CoqProject.new _CoqProject 2>/dev/null || [ ! -f Makefile ]; then
  mv _CoqProject.new _CoqProject
  coq_makefile -f _CoqProject -o Makefile > /dev/null 2>&1
else
  rm -f _CoqProject.new
fi
if [ $# -eq 0 ]; then
  # -k: one area's broken file must not prevent the others from being built;
  # a check whose own theories are missing fails later, by itself
  timeout 2700 make -k -j"${VERIF_JOBS:-16}" > build.log 2>&1 || { grep -v '^Warning' build.log | grep -B2 -A12 'Error' | tail -60; exit 1; }
else
  timeout 2700 make -j"${VERIF_JOBS:-16}" "$@" > build.$$.log 2>&1 || { grep -v '^Warning' build.$$.log | tail -40; rm -f build.$$.log; exit 1; }
  rm -f build.$$.log
fi
