(* L7 / RenderProofs: evaluating the rendered TEXT of a program (Render.v),
   under any syntax table whose tokens are pairwise distinct and distinct
   from identifiers, gives what the strict evaluator of the program AST
   (Dag.v) gives; hence, with DagProofs.straightline_correct, each output of
   the rendered text of dumps_bdd_as_code is the BDD's value. *)
From Coq Require Import List Bool Arith ZArith NArith String Ascii Lia.
From Coq Require Import DecimalString DecimalN DecimalNat.
Import ListNotations.
From Omega Require Import L7Codegen.Pred L7Codegen.Dag L7Codegen.DagProofs
  L7Codegen.Render.
Local Open Scope string_scope.

(* ---- strings ---- *)
Lemma mem_s_In w l : mem_s w l = true <-> In w l.
Proof.
  induction l as [|x r IH]; cbn; [split; [discriminate | tauto]|].
  rewrite orb_true_iff, IH, String.eqb_eq. split; intros [H|H]; auto.
Qed.

Lemma nodup_s_nth : forall l, nodup_s l = true ->
  forall i j x y, i <> j -> nth_error l i = Some x -> nth_error l j = Some y ->
  String.eqb x y = false.
Proof.
  induction l as [|h r IH]; intros N i j x y D Hi Hj; [destruct i; discriminate|].
  cbn in N. apply andb_true_iff in N. destruct N as [N1 N2].
  apply negb_true_iff in N1.
  assert (M : forall k z, nth_error r k = Some z -> String.eqb h z = false).
  { intros k z Hk. destruct (String.eqb_spec h z) as [->|]; [|reflexivity].
    apply nth_error_In in Hk. apply mem_s_In in Hk. congruence. }
  destruct i as [|i], j as [|j]; cbn in Hi, Hj.
  - congruence.
  - injection Hi as <-. eapply M; eauto.
  - injection Hj as <-. rewrite String.eqb_sym. eapply M; eauto.
  - eapply (IH N2 i j); eauto.
Qed.

Lemma nodup_s_NoDup l : nodup_s l = true -> NoDup l.
Proof.
  induction l as [|h r IH]; cbn; intro N; constructor.
  - apply andb_true_iff in N. destruct N as [N _]. apply negb_true_iff in N.
    intro I. apply mem_s_In in I. congruence.
  - apply IH. apply andb_true_iff in N. tauto.
Qed.

Lemma prefix_app p s : String.prefix p (p ++ s) = true.
Proof.
  induction p as [|c p IH]; cbn; [destruct s; reflexivity|].
  destruct (ascii_dec c c); [exact IH | congruence].
Qed.

Lemma app_inj_l (p x y : string) : p ++ x = p ++ y -> x = y.
Proof. induction p as [|c p IH]; cbn; intro H; [exact H|]. injection H as H. auto. Qed.

(* ---- decimal numerals ---- *)
Lemma uint_string_inj d1 d2 :
  NilEmpty.string_of_uint d1 = NilEmpty.string_of_uint d2 -> d1 = d2.
Proof.
  intro H. assert (E := NilEmpty.usu d1). rewrite H, NilEmpty.usu in E. congruence.
Qed.

Lemma dec_N_inj n m : dec_N n = dec_N m -> n = m.
Proof.
  intro H. apply uint_string_inj in H.
  rewrite <- (DecimalN.Unsigned.of_to n), <- (DecimalN.Unsigned.of_to m), H. reflexivity.
Qed.

(* a numeral does not begin with a character that is no digit *)
Lemma uint_string_head d c s :
  NilEmpty.string_of_uint d = String c s ->
  NilEmpty.uint_of_string (String c EmptyString) <> None.
Proof.
  intros H E. assert (U := NilEmpty.usu d). rewrite H in U. cbn in U, E.
  destruct (NilEmpty.uint_of_string s); cbn in U;
    destruct c as [[] [] [] [] [] [] [] []]; cbn in *; congruence.
Qed.

Lemma dec_N_not_n n s : dec_N n <> String "n" s.
Proof. intro H. apply uint_string_head in H. apply H. reflexivity. Qed.

Lemma dec_nat_not_NL n : dec_nat n <> NL.
Proof. intro H. apply uint_string_head in H. apply H. reflexivity. Qed.

Lemma zname_inj k1 k2 : zname k1 = zname k2 -> k1 = k2.
Proof.
  unfold zname. destruct (Z.ltb_spec k1 0) as [L1|L1], (Z.ltb_spec k2 0) as [L2|L2];
    cbn; intro E.
  - injection E as E. apply dec_N_inj in E. lia.
  - symmetry in E. apply dec_N_not_n in E. contradiction.
  - apply dec_N_not_n in E. contradiction.
  - apply dec_N_inj in E. lia.
Qed.

Lemma latch_word_inj k1 k2 : latch_word k1 = latch_word k2 -> k1 = k2.
Proof. unfold latch_word. intro H. apply app_inj_l in H. apply zname_inj, H. Qed.

Lemma latch_word_eqb k1 k2 : String.eqb (latch_word k1) (latch_word k2) = Z.eqb k1 k2.
Proof.
  destruct (Z.eqb_spec k1 k2) as [->|N]; [apply String.eqb_refl|].
  apply String.eqb_neq. intro H. apply latch_word_inj in H. contradiction.
Qed.

Lemma latch_word_prefix k : String.prefix "latch_" (latch_word k) = true.
Proof. apply prefix_app. Qed.
Lemma latch_word_not_out k : String.prefix "out_bits[" (latch_word k) = false.
Proof. reflexivity. Qed.
Lemma out_word_prefix nm : String.prefix "out_bits[" (out_word nm) = true.
Proof. reflexivity. Qed.

(* ---- the value of laid-out expressions ---- *)
Section Proofs.
Variable sy : syntax.
Variable names : list string.
Variable outname : nat -> string.
Hypothesis SO : syntax_ok sy = true.
Hypothesis NO : names_ok sy names = true.
Variable a : asg.

Local Notation rend := (rend sy).
Local Notation p_un := (p_un sy names a).
Local Notation p_or := (p_or sy names a).
Local Notation p_and := (p_and sy names a).
Local Notation p_or_loop := (p_or_loop sy names a).
Local Notation p_and_loop := (p_and_loop sy names a).
Local Notation ident_val := (ident_val names a).
Local Notation reserved := (reserved sy).
Local Notation bitname := (bitname names).

Lemma res_nodup : nodup_s reserved = true.
Proof. unfold syntax_ok in SO. apply andb_true_iff in SO. tauto. Qed.
Lemma res_plain : forall t, In t reserved -> plain_word t = true.
Proof.
  unfold syntax_ok in SO. apply andb_true_iff in SO. destruct SO as [_ H].
  rewrite forallb_forall in H. exact H.
Qed.

(* two tokens of the table at different positions differ *)
Ltac res i j :=
  apply (nodup_s_nth reserved res_nodup i j); [discriminate | reflexivity | reflexivity].

Lemma TRUE_NL : String.eqb (s_true sy) NL = false. Proof. res 4 0. Qed.
Lemma TRUE_NOT : String.eqb (s_true sy) (s_not sy) = false. Proof. res 4 6. Qed.
Lemma TRUE_LP : String.eqb (s_true sy) LP = false. Proof. res 4 1. Qed.
Lemma LP_NL : String.eqb LP NL = false. Proof. reflexivity. Qed.
Lemma LP_NOT : String.eqb LP (s_not sy) = false. Proof. res 1 6. Qed.
Lemma NOT_NL : String.eqb (s_not sy) NL = false. Proof. res 6 0. Qed.
Lemma RP_NL : String.eqb RP NL = false. Proof. reflexivity. Qed.
Lemma RP_AND : String.eqb RP (s_and sy) = false. Proof. res 2 7. Qed.
Lemma RP_OR : String.eqb RP (s_or sy) = false. Proof. res 2 8. Qed.
Lemma AND_NL : String.eqb (s_and sy) NL = false. Proof. res 7 0. Qed.
Lemma OR_NL : String.eqb (s_or sy) NL = false. Proof. res 8 0. Qed.
Lemma OR_AND : String.eqb (s_or sy) (s_and sy) = false. Proof. res 8 7. Qed.
Lemma NL_AND : String.eqb NL (s_and sy) = false. Proof. res 0 7. Qed.
Lemma NL_OR : String.eqb NL (s_or sy) = false. Proof. res 0 8. Qed.

(* an identifier: no token of the table *)
Definition idw (w : string) : Prop := ~ In w reserved.

Lemma idw_eqb w t : idw w -> In t reserved -> String.eqb w t = false.
Proof. intros H I. apply String.eqb_neq. intros ->. exact (H I). Qed.

Lemma in_res_fixed : forall t,
  In t [NL; LP; RP; EQ; s_true sy; s_false sy; s_not sy; s_and sy; s_or sy; s_comment sy] ->
  In t reserved.
Proof. intros t H. unfold Render.reserved. apply in_or_app. left. exact H. Qed.

Lemma idw_facts w : idw w ->
  String.eqb w NL = false /\ String.eqb w (s_not sy) = false /\
  String.eqb w LP = false /\ String.eqb w (s_true sy) = false /\
  String.eqb w (s_false sy) = false /\ String.eqb w (s_comment sy) = false.
Proof.
  intro W. repeat split; apply (idw_eqb w _ W); apply in_res_fixed; cbn; tauto.
Qed.

Lemma not_plain_idw w : plain_word w = false -> idw w.
Proof. intros H I. apply res_plain in I. congruence. Qed.

Lemma idw_latch k : idw (latch_word k).
Proof.
  apply not_plain_idw. unfold plain_word. rewrite latch_word_prefix. reflexivity.
Qed.
Lemma idw_out nm : idw (out_word nm).
Proof.
  apply not_plain_idw. unfold plain_word. rewrite out_word_prefix.
  apply andb_false_r.
Qed.

Lemma names_spec : NoDup names /\
  forall w, In w names -> idw w /\ plain_word w = true.
Proof.
  unfold names_ok in NO. apply andb_true_iff in NO. destruct NO as [N1 N2]. split.
  - apply nodup_s_NoDup, N1.
  - intros w I. rewrite forallb_forall in N2. specialize (N2 w I).
    apply andb_true_iff in N2. destruct N2 as [M P]. split; [|exact P].
    apply negb_true_iff in M. intro J. apply mem_s_In in J. congruence.
Qed.

Lemma idw_bit i : i < List.length names -> idw (bitname i).
Proof. intro H. apply (proj2 names_spec). apply nth_In, H. Qed.

Fixpoint beval (env : list (string * bool)) (e : bexp) : option bool :=
  match e with
  | BTrue => Some true
  | BId w => ident_val env w
  | BNot e => option_map negb (beval env e)
  | BAnd x y =>
      match beval env x, beval env y with
      | Some u, Some v => Some (u && v)
      | _, _ => None
      end
  | BOr x y =>
      match beval env x, beval env y with
      | Some u, Some v => Some (u || v)
      | _, _ => None
      end
  | BNl e => beval env e
  end.

(* identifiers are identifiers; a line break only inside parentheses *)
Fixpoint wfe (d : nat) (e : bexp) : Prop :=
  match e with
  | BTrue => True
  | BId w => idw w
  | BNot e => wfe (S d) e
  | BAnd x y | BOr x y => wfe (S d) x /\ wfe (S d) y
  | BNl e => d <> 0 /\ wfe d e
  end.

Fixpoint cost (e : bexp) : nat :=
  match e with
  | BTrue | BId _ => 1
  | BNot e => 4 + cost e
  | BAnd x y | BOr x y => 4 + cost x + cost y
  | BNl e => cost e
  end.

Lemma cost_pos e : 1 <= cost e.
Proof. induction e; cbn; lia. Qed.

Lemma cost_len e : cost e + 3 <= 4 * List.length (rend e).
Proof.
  induction e; cbn [cost Render.rend List.length]; rewrite ?app_length;
    cbn [List.length]; rewrite ?app_length; cbn [List.length]; lia.
Qed.

Lemma sk_cons d t r : String.eqb t NL = false -> sk d (t :: r) = t :: r.
Proof. intro H. destruct d; cbn; [reflexivity|]. rewrite H. reflexivity. Qed.

Lemma p_un_nl f d env ts : d <> 0 -> p_un f d env (NL :: ts) = p_un f d env ts.
Proof.
  intro D. destruct d as [|d]; [congruence|]. destruct f as [|f]; [reflexivity|].
  cbn [Render.p_un sk skip_nl]. rewrite String.eqb_refl. reflexivity.
Qed.

(* one-step unfolding equations (by conversion) *)
Lemma p_un_eq f d env ts :
  p_un (S f) d env ts =
  match sk d ts with
  | [] => None
  | w :: r =>
      if String.eqb w (s_not sy) then
        match p_un f d env r with
        | Some (v, r1) => Some (negb v, r1)
        | None => None
        end
      else if String.eqb w LP then
        match p_or f (S d) env r with
        | Some (v, r1) =>
            match sk (S d) r1 with
            | c :: r2 => if String.eqb c RP then Some (v, r2) else None
            | [] => None
            end
        | None => None
        end
      else if String.eqb w (s_true sy) then Some (true, r)
      else if String.eqb w (s_false sy) then Some (false, r)
      else match ident_val env w with
           | Some b => Some (b, r)
           | None => None
           end
  end.
Proof. reflexivity. Qed.
Lemma p_or_eq f d env ts :
  p_or (S f) d env ts =
  match p_and f d env ts with
  | Some (v, r) => p_or_loop f d env v r
  | None => None
  end.
Proof. reflexivity. Qed.
Lemma p_and_eq f d env ts :
  p_and (S f) d env ts =
  match p_un f d env ts with
  | Some (v, r) => p_and_loop f d env v r
  | None => None
  end.
Proof. reflexivity. Qed.
Lemma p_or_loop_eq f d env v ts :
  p_or_loop (S f) d env v ts =
  match sk d ts with
  | w :: r =>
      if String.eqb w (s_or sy) then
        match p_and f d env r with
        | Some (v2, r2) => p_or_loop f d env (v || v2) r2
        | None => None
        end
      else Some (v, ts)
  | [] => Some (v, ts)
  end.
Proof. reflexivity. Qed.
Lemma p_and_loop_eq f d env v ts :
  p_and_loop (S f) d env v ts =
  match sk d ts with
  | w :: r =>
      if String.eqb w (s_and sy) then
        match p_un f d env r with
        | Some (v2, r2) => p_and_loop f d env (v && v2) r2
        | None => None
        end
      else Some (v, ts)
  | [] => Some (v, ts)
  end.
Proof. reflexivity. Qed.

Lemma un_not f d env r :
  p_un (S f) d env (s_not sy :: r) =
  match p_un f d env r with
  | Some (v, r1) => Some (negb v, r1)
  | None => None
  end.
Proof. rewrite p_un_eq, (sk_cons _ _ _ NOT_NL), String.eqb_refl. reflexivity. Qed.
Lemma un_lp f d env r :
  p_un (S f) d env (LP :: r) =
  match p_or f (S d) env r with
  | Some (v, r1) =>
      match sk (S d) r1 with
      | c :: r2 => if String.eqb c RP then Some (v, r2) else None
      | [] => None
      end
  | None => None
  end.
Proof. rewrite p_un_eq, (sk_cons _ _ _ LP_NL), LP_NOT, String.eqb_refl. reflexivity. Qed.
Lemma and_loop_and f d env v r :
  p_and_loop (S f) d env v (s_and sy :: r) =
  match p_un f d env r with
  | Some (v2, r2) => p_and_loop f d env (v && v2) r2
  | None => None
  end.
Proof. rewrite p_and_loop_eq, (sk_cons _ _ _ AND_NL), String.eqb_refl. reflexivity. Qed.
Lemma and_loop_or f d env v r :
  p_and_loop (S f) d env v (s_or sy :: r) = Some (v, s_or sy :: r).
Proof. rewrite p_and_loop_eq, (sk_cons _ _ _ OR_NL), OR_AND. reflexivity. Qed.
Lemma or_loop_or f d env v r :
  p_or_loop (S f) d env v (s_or sy :: r) =
  match p_and f d env r with
  | Some (v2, r2) => p_or_loop f d env (v || v2) r2
  | None => None
  end.
Proof. rewrite p_or_loop_eq, (sk_cons _ _ _ OR_NL), String.eqb_refl. reflexivity. Qed.
(* after an operand, `)` ends both loops *)
Lemma and_loop_rp f d env v r :
  p_and_loop (S f) d env v (RP :: r) = Some (v, RP :: r).
Proof. rewrite p_and_loop_eq, (sk_cons _ _ _ RP_NL), RP_AND. reflexivity. Qed.
Lemma or_loop_rp f d env v r :
  p_or_loop (S f) d env v (RP :: r) = Some (v, RP :: r).
Proof. rewrite p_or_loop_eq, (sk_cons _ _ _ RP_NL), RP_OR. reflexivity. Qed.
Lemma close_rp d (v : bool) r :
  match sk (S d) (RP :: r) with
  | c :: r2 => if String.eqb c RP then Some (v, r2) else None
  | [] => None
  end = Some (v, r).
Proof. rewrite (sk_cons _ _ _ RP_NL), String.eqb_refl. reflexivity. Qed.

Lemma rend_eval : forall e d env rest f v,
  wfe d e -> beval env e = Some v -> cost e <= f ->
  p_un f d env (rend e ++ rest) = Some (v, rest).
Proof.
  induction e as [|w|e IH|x IHx y IHy|x IHx y IHy|e IH];
    intros d env rest f v W B C; cbn [cost] in C; cbn [Render.rend].
  - (* TRUE *)
    destruct f as [|f]; [lia|]. cbn [app]. rewrite p_un_eq, (sk_cons _ _ _ TRUE_NL).
    rewrite TRUE_NOT, TRUE_LP, String.eqb_refl. cbn in B. congruence.
  - (* identifier *)
    destruct f as [|f]; [lia|]. cbn [app]. rewrite p_un_eq. cbn in W, B.
    destruct (idw_facts w W) as (I1 & I2 & I3 & I4 & I5 & _).
    rewrite (sk_cons _ _ _ I1), I2, I3, I4, I5.
    rewrite B. reflexivity.
  - (* (NOT e) *)
    cbn in W, B. destruct (beval env e) as [u|] eqn:Be; [|discriminate].
    injection B as <-.
    destruct f as [|[|[|[|f]]]]; try lia.
    cbn [app]. rewrite <- app_assoc. cbn [app].
    rewrite un_lp, p_or_eq, p_and_eq, un_not.
    rewrite (IH (S d) env (RP :: rest) f u W Be) by lia.
    rewrite and_loop_rp, or_loop_rp. apply close_rp.
  - (* (x AND y) *)
    cbn in W, B. destruct W as [Wx Wy].
    destruct (beval env x) as [u|] eqn:Bx; [|discriminate].
    destruct (beval env y) as [u'|] eqn:By; [|discriminate]. injection B as <-.
    destruct f as [|[|[|[|f]]]]; try lia.
    cbn [app]. rewrite <- app_assoc. cbn [app]. rewrite <- app_assoc. cbn [app].
    rewrite un_lp, p_or_eq, p_and_eq.
    rewrite (IHx (S d) env _ (S f) u Wx Bx) by lia.
    rewrite and_loop_and.
    rewrite (IHy (S d) env (RP :: rest) f u' Wy By) by lia.
    destruct f as [|f]; [pose proof (cost_pos x); pose proof (cost_pos y); lia|].
    rewrite and_loop_rp, or_loop_rp. apply close_rp.
  - (* (x OR y) *)
    cbn in W, B. destruct W as [Wx Wy].
    destruct (beval env x) as [u|] eqn:Bx; [|discriminate].
    destruct (beval env y) as [u'|] eqn:By; [|discriminate]. injection B as <-.
    destruct f as [|[|[|[|f]]]]; try lia.
    cbn [app]. rewrite <- app_assoc. cbn [app]. rewrite <- app_assoc. cbn [app].
    rewrite un_lp, p_or_eq, p_and_eq.
    rewrite (IHx (S d) env _ (S f) u Wx Bx) by lia.
    rewrite and_loop_or, or_loop_or, p_and_eq.
    rewrite (IHy (S d) env (RP :: rest) f u' Wy By) by lia.
    destruct f as [|f]; [pose proof (cost_pos x); pose proof (cost_pos y); lia|].
    rewrite and_loop_rp, or_loop_rp. apply close_rp.
  - (* line break *)
    cbn in W, B. destruct W as [D W]. cbn [app]. rewrite (p_un_nl _ _ _ _ D).
    apply IH; assumption.
Qed.

(* the token after a complete expression is neither AND nor OR *)
Definition stop (rest : list string) : Prop :=
  match rest with
  | [] => True
  | t :: _ => String.eqb t (s_and sy) = false /\ String.eqb t (s_or sy) = false
  end.

Lemma expr_top e env rest f v :
  wfe 0 e -> beval env e = Some v -> stop rest -> cost e + 2 <= f ->
  p_or f 0 env (rend e ++ rest) = Some (v, rest).
Proof.
  intros W B St C. destruct f as [|[|f]]; try lia.
  rewrite p_or_eq, p_and_eq, (rend_eval e 0 env rest f v W B) by lia.
  destruct f as [|f]; [pose proof (cost_pos e); lia|].
  rewrite p_and_loop_eq.
  destruct rest as [|t r]; cbn [sk]; [rewrite p_or_loop_eq; reflexivity|].
  destruct St as [S1 S2]. rewrite S1, p_or_loop_eq. cbn [sk]. rewrite S2. reflexivity.
Qed.

(* ---- program state vs text state ---- *)
Definition corr (s : state) (st : tstate) : Prop :=
  t_env st = map (fun kb => (latch_word (fst kb), snd kb)) (st_latches s) /\
  t_outs st = map (fun nb => (out_word (outname (fst nb)), snd nb)) (st_outs s).

Lemma lookup_latch l k :
  lookup_s (map (fun kb : Z * bool => (latch_word (fst kb), snd kb)) l) (latch_word k)
  = find_latch l k.
Proof.
  induction l as [|[k' b] r IH]; cbn [map lookup_s fst snd find_latch]; [reflexivity|].
  rewrite latch_word_eqb. destruct (Z.eqb k' k); [reflexivity | exact IH].
Qed.

Lemma input_none : forall nm i w, (forall x, In x nm -> x <> w) -> input_val nm i a w = None.
Proof.
  induction nm as [|x r IH]; intros i w H; cbn; [reflexivity|].
  destruct (String.eqb_spec x w) as [E|_]; [exfalso; apply (H x); cbn; auto|].
  apply IH. intros y I. apply H. cbn. auto.
Qed.

Lemma input_latch k : input_val names 0 a (latch_word k) = None.
Proof.
  apply input_none. intros x I E. destruct (proj2 names_spec x I) as [_ P].
  subst x. unfold plain_word in P. rewrite latch_word_prefix in P. discriminate.
Qed.

Lemma input_nth : forall nm i j, NoDup nm -> j < List.length nm ->
  input_val nm i a (nth j nm "") = Some (get a (i + j)).
Proof.
  induction nm as [|x r IH]; intros i j N L; cbn in L; [lia|].
  inversion N as [|? ? Nx Nr]; subst. destruct j as [|j]; cbn.
  - rewrite String.eqb_refl, Nat.add_0_r. reflexivity.
  - destruct (String.eqb_spec x (nth j r "")) as [E|_].
    + exfalso. apply Nx. rewrite E. apply nth_In. lia.
    + rewrite (IH (S i) j Nr) by lia. f_equal. f_equal. lia.
Qed.

Lemma lookup_not_latch : forall l w, (forall k, w <> latch_word k) ->
  lookup_s (map (fun kb : Z * bool => (latch_word (fst kb), snd kb)) l) w = None.
Proof.
  induction l as [|[k b] r IH]; intros w H; cbn [map lookup_s fst snd]; [reflexivity|].
  destruct (String.eqb_spec (latch_word k) w) as [E|_]; [exfalso; apply (H k); auto|].
  apply IH, H.
Qed.

Lemma ident_bit s st i : corr s st -> i < List.length names ->
  ident_val (t_env st) (bitname i) = Some (get a i).
Proof.
  intros [E _] L. unfold Render.ident_val. rewrite E.
  rewrite lookup_not_latch.
  - unfold Render.bitname. rewrite (input_nth names 0 i (proj1 names_spec) L). reflexivity.
  - intros k H. destruct (proj2 names_spec (bitname i) (nth_In _ _ L)) as [_ P].
    rewrite H in P. unfold plain_word in P. rewrite latch_word_prefix in P. discriminate.
Qed.

Lemma ref_eval s st r v d : corr s st -> eval_ref s r = Some v ->
  beval (t_env st) (ref_exp r) = Some v /\ wfe d (ref_exp r).
Proof.
  intros [E _] H. unfold eval_ref in H. unfold ref_exp.
  destruct r as [ng [|k]]; cbn [r_latch r_neg latch_exp] in *.
  - injection H as <-. destruct ng; cbn; auto.
  - destruct (find_latch (st_latches s) k) as [b|] eqn:F; [|discriminate].
    injection H as <-.
    assert (I : ident_val (t_env st) (latch_word k) = Some b).
    { unfold Render.ident_val. rewrite E, lookup_latch, F. reflexivity. }
    destruct ng; cbn [beval wfe]; rewrite I; split; auto using idw_latch.
    destruct b; reflexivity.
Qed.

Lemma node_eval s st bit hi lo h l : corr s st -> bit < List.length names ->
  eval_ref s hi = Some h -> eval_ref s lo = Some l ->
  beval (t_env st) (node_exp names bit hi lo)
  = Some ((get a bit && h) || (negb (get a bit) && l))
  /\ wfe 0 (node_exp names bit hi lo).
Proof.
  intros C L Hh Hl.
  destruct (ref_eval s st hi h 2 C Hh) as [B1 W1].
  destruct (ref_eval s st lo l 2 C Hl) as [B2 W2].
  unfold node_exp. cbn [beval wfe]. rewrite (ident_bit s st bit C L), B1, B2. cbn.
  repeat split; auto using idw_bit.
Qed.

Lemma strip_sep_toks tail : strip_sep sy (sep_toks sy ++ tail) = Some tail.
Proof.
  unfold strip_sep, sep_toks. destruct (String.eqb (s_sep sy) ""); cbn; [reflexivity|].
  rewrite String.eqb_refl. reflexivity.
Qed.

(* what follows a statement: its separator, then a line break or the end *)
Lemma stop_tail tail : (tail = [] \/ exists r, tail = NL :: r) -> stop (sep_toks sy ++ tail).
Proof.
  intros H. unfold sep_toks. destruct (String.eqb (s_sep sy) "") eqn:E; cbn [app].
  - destruct H as [->|[r ->]]; cbn; auto using NL_AND, NL_OR.
  - cbn. split.
    + apply (nodup_s_nth reserved res_nodup 10 7); [discriminate| |reflexivity].
      unfold Render.reserved, sep_toks. rewrite E. reflexivity.
    + apply (nodup_s_nth reserved res_nodup 10 8); [discriminate| |reflexivity].
      unfold Render.reserved, sep_toks. rewrite E. reflexivity.
Qed.

Lemma fuel_ok e rest : cost e + 2 <= expr_fuel (rend e ++ rest).
Proof. unfold expr_fuel. rewrite app_length. pose proof (cost_len e). lia. Qed.

(* after a statement and its line break *)
Definition continue (f : nat) (st1 : tstate) (tail : list string) : option tstate :=
  match tail with
  | [] => Some st1
  | n :: r => if String.eqb n NL then exec_text sy names a f st1 r else None
  end.

Lemma stmt_text w e v st st1 f tail :
  idw w -> wfe 0 e -> beval (t_env st) e = Some v ->
  assign names a st w v = Some st1 ->
  (tail = [] \/ exists r, tail = NL :: r) ->
  exec_text sy names a (S f) st (w :: EQ :: rend e ++ sep_toks sy ++ tail)
  = continue f st1 tail.
Proof.
  intros Iw W B A T. cbn [exec_text].
  rewrite (proj2 (proj2 (proj2 (proj2 (proj2 (idw_facts w Iw)))))).
  rewrite String.eqb_refl.
  rewrite (expr_top e (t_env st) (sep_toks sy ++ tail) _ v W B (stop_tail tail T)
             (fuel_ok e _)).
  rewrite strip_sep_toks, A. reflexivity.
Qed.

Lemma after_nl_comment l tail : (tail = [] \/ exists r, tail = NL :: r) ->
  after_nl ("level" :: ":" :: dec_nat l :: tail)
  = match tail with [] => [] | _ :: r => r end.
Proof.
  intros T. cbn [after_nl].
  change (String.eqb "level" NL) with false. change (String.eqb ":" NL) with false.
  cbv iota.
  destruct (String.eqb_spec (dec_nat l) NL) as [E|_]; [apply dec_nat_not_NL in E; contradiction|].
  destruct T as [->|[r ->]]; cbn; [reflexivity|]. reflexivity.
Qed.

(* one statement *)
Lemma stmt_step c s s1 st n :
  exec_stmt a s c = Some s1 -> corr s st ->
  n = List.length names -> prog_bits_ok n [c] = true ->
  exists st1, corr s1 st1 /\
    forall f tail, (tail = [] \/ exists r, tail = NL :: r) ->
      exec_text sy names a (S (S f)) st (render_stmt sy names outname c ++ tail)
      = match tail with
        | [] => Some st1
        | _ :: r => exec_text sy names a (S f) st1 r
        end.
Proof.
  intros E C -> PB. destruct c as [l|k bit hi lo|nm r]; cbn in E.
  - (* comment *)
    injection E as <-. exists st. split; [exact C|]. intros f tail T.
    cbn [render_stmt app exec_text]. rewrite String.eqb_refl.
    rewrite (after_nl_comment l tail T).
    destruct T as [->|[r ->]]; reflexivity.
  - (* latch *)
    destruct (find_latch (st_latches s) k) eqn:Fk; [discriminate|].
    destruct (eval_ref s hi) as [h|] eqn:Hh; [|discriminate].
    destruct (eval_ref s lo) as [l|] eqn:Hl; [|discriminate].
    injection E as <-.
    cbn in PB. rewrite andb_true_r in PB. apply Nat.ltb_lt in PB.
    destruct (node_eval s st bit hi lo h l C PB Hh Hl) as [B W].
    set (v := (get a bit && h) || (negb (get a bit) && l)) in *.
    exists (mk_tstate ((latch_word k, v) :: t_env st) (t_outs st)). split.
    + destruct C as [C1 C2]. split; cbn; [rewrite C1; reflexivity | exact C2].
    + intros f tail T. cbn [render_stmt]. rewrite <- app_comm_cons, <- app_comm_cons.
      rewrite <- app_assoc.
      rewrite (stmt_text (latch_word k) _ v st
                 (mk_tstate ((latch_word k, v) :: t_env st) (t_outs st))
                 (S f) tail (idw_latch k) W B); [|..|exact T].
      * destruct T as [->|[r ->]]; cbn [continue]; [reflexivity|].
        rewrite String.eqb_refl. reflexivity.
      * unfold assign. rewrite latch_word_not_out, latch_word_prefix.
        destruct C as [C1 _]. rewrite C1, lookup_latch, Fk, input_latch. reflexivity.
  - (* output *)
    destruct (eval_ref s r) as [b|] eqn:Hr; [|discriminate]. injection E as <-.
    destruct (ref_eval s st r b 0 C Hr) as [B W].
    exists (mk_tstate (t_env st) (t_outs st ++ [(out_word (outname nm), b)])). split.
    + destruct C as [C1 C2]. split; cbn; [exact C1|]. rewrite C2, map_app. reflexivity.
    + intros f tail T. cbn [render_stmt]. rewrite <- app_comm_cons, <- app_comm_cons.
      rewrite <- app_assoc.
      rewrite (stmt_text (out_word (outname nm)) _ b st
                 (mk_tstate (t_env st) (t_outs st ++ [(out_word (outname nm), b)]))
                 (S f) tail (idw_out _) W B); [|..|exact T].
      * destruct T as [->|[r' ->]]; cbn [continue]; [reflexivity|].
        rewrite String.eqb_refl. reflexivity.
      * unfold assign. rewrite out_word_prefix. reflexivity.
Qed.

Lemma prog_text : forall p s s' st f,
  exec a s p = Some s' -> corr s st ->
  prog_bits_ok (List.length names) p = true -> List.length p < f ->
  exists st', exec_text sy names a f st (render sy names outname p) = Some st' /\ corr s' st'.
Proof.
  induction p as [|c p IH]; intros s s' st f E C PB F.
  - cbn in E. injection E as <-. destruct f as [|f]; [cbn in F; lia|].
    exists st. split; [reflexivity | exact C].
  - cbn [exec] in E. destruct (exec_stmt a s c) as [s1|] eqn:E1; [|discriminate].
    unfold prog_bits_ok in PB. cbn [forallb] in PB.
    apply andb_true_iff in PB. destruct PB as [PB1 PB2]. fold (prog_bits_ok (List.length names) p) in PB2.
    destruct (stmt_step c s s1 st _ E1 C eq_refl) as [st1 [C1 H]].
    { unfold prog_bits_ok. cbn [forallb]. rewrite PB1. reflexivity. }
    cbn [List.length] in F. destruct f as [|[|f]]; try lia.
    destruct p as [|c2 p].
    + cbn in E. injection E as <-. exists st1. split; [|exact C1].
      cbn [render]. rewrite <- (app_nil_r (render_stmt _ _ _ c)).
      rewrite (H f [] (or_introl eq_refl)). reflexivity.
    + destruct (IH s1 s' st1 (S f) E C1 PB2) as [st' [E' C']]; [cbn [List.length] in *; lia|].
      exists st'. split; [|exact C'].
      change (render sy names outname (c :: c2 :: p))
        with (render_stmt sy names outname c ++ NL :: render sy names outname (c2 :: p))%list.
      rewrite (H f _ (or_intror (ex_intro _ _ eq_refl))). exact E'.
Qed.

Lemma render_length : forall p, List.length p <= List.length (render sy names outname p).
Proof.
  assert (L : forall c, 1 <= List.length (render_stmt sy names outname c)).
  { destruct c; cbn; lia. }
  induction p as [|c p IH]; [cbn; lia|]. destruct p as [|c2 p].
  - cbn [render List.length]. apply L.
  - change (render sy names outname (c :: c2 :: p))
      with (render_stmt sy names outname c ++ NL :: render sy names outname (c2 :: p))%list.
    rewrite app_length. cbn [List.length] in *. pose proof (L c). lia.
Qed.

(* evaluating the rendered text of ANY program the strict AST evaluator
   accepts gives the AST's outputs *)
Theorem rendered_text_evaluates_program : forall p outs,
  prog_bits_ok (List.length names) p = true ->
  run a p = Some outs ->
  run_text sy names a (render sy names outname p)
  = Some (map (fun o => (out_word (outname (fst o)), snd o)) outs).
Proof.
  intros p outs PB R. unfold run in R.
  destruct (exec a (mk_state [] []) p) as [s'|] eqn:E; [|discriminate]. injection R as <-.
  unfold run_text.
  destruct (prog_text p (mk_state [] []) s' (mk_tstate [] [])
              (S (List.length (render sy names outname p))) E) as [st' [E' [_ C2]]].
  - split; reflexivity.
  - exact PB.
  - pose proof (render_length p). lia.
  - rewrite E'. rewrite C2. reflexivity.
Qed.

End Proofs.

(* ---- the program emitted for a DAG tests input bits only ---- *)
Lemma dumps_bits_ok d nlev n roots :
  wf_dag d nlev = true -> dag_bits_ok n d = true ->
  prog_bits_ok n (dumps_bdd_as_code nlev d roots) = true.
Proof.
  intros WF DB. unfold dumps_bdd_as_code.
  assert (C0 : closed d []) by (intros l x []).
  assert (O0 : layers_ok []) by (split; [constructor|intro; constructor]).
  destruct (collect_layers_spec d nlev WF roots [] C0 O0) as (C & _ & _ & E & _).
  destruct (collect_layers nlev d roots []) as [L lines]. cbn [fst snd] in *. subst lines.
  unfold prog_bits_ok. rewrite forallb_app. apply andb_true_iff. split.
  - apply forallb_forall. intros c Hc. unfold dumps_layers in Hc.
    apply in_flat_map in Hc. destruct Hc as [l [_ [<-|Hc]]]; [reflexivity|].
    apply in_map_iff in Hc. destruct Hc as [k [<- Hk]].
    destruct (C l k Hk) as (i & F & T & _). unfold dumps_node. rewrite F.
    apply find_info_In in F. unfold dag_bits_ok in DB. rewrite forallb_forall in DB.
    specialize (DB _ F). cbn in DB. rewrite T in DB. exact DB.
  - apply forallb_forall. intros c Hc. unfold out_lines in Hc.
    apply in_map_iff in Hc. destruct Hc as [r [<- _]]. reflexivity.
Qed.

(* the rendered text of dumps_bdd_as_code, evaluated strictly under the
   table, leaves each root equal to the BDD's value *)
Theorem rendered_text_evaluates_bdd :
  forall sy names outname, syntax_ok sy = true -> names_ok sy names = true ->
  forall d nlev a roots,
  wf_dag d nlev = true -> dag_bits_ok (List.length names) d = true ->
  (forall r, In r roots -> root_ok_p d nlev (snd r)) ->
  run_text sy names a (render sy names outname (dumps_bdd_as_code nlev d roots))
  = Some (map (fun r => (out_word (outname (fst r)), ref_val (S nlev) d a (snd r))) roots).
Proof.
  intros sy names outname SO NO d nlev a roots WF DB RO.
  rewrite (rendered_text_evaluates_program sy names outname SO NO a _ _
             (dumps_bits_ok d nlev _ roots WF DB)
             (straightline_correct d nlev WF a roots RO)).
  rewrite map_map. reflexivity.
Qed.
