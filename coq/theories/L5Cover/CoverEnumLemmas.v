(* L5Cover / CoverEnumLemmas: the two enumerations of cover_enum.py are
   complete, and auxiliary facts about the error monad and sets of covers.

   - [below_levels_complete] / [enumerate_below_complete]
     (_enumerate_mincovers_below): from a cover [lm] by maximal floors, every
     cover obtained by replacing each element of [lm] by an element of Y
     below it is produced;
   - [unfloor_levels_complete] / [enumerate_unfloor_complete]
     (_enumerate_mincovers_unfloor): every list obtained by replacing each
     floor by an element of Y above it is produced;
   - the results consist of duplicate-free lists. *)
From Coq Require Import List ZArith Bool Lia Arith Permutation.
Import ListNotations.
From Omega Require Import L5Cover.Boxes L5Cover.BoxesProofs L5Cover.MinCover
  L5Cover.MinCoverProofs L5Cover.CyclicCoreOpt L5Cover.CoverEnum
  L5Cover.CoverEnumProofs.
Open Scope Z_scope.

(* ------------------------------------------------------------ lists *)
Lemma Forall2_flip' {A B} (R : A -> B -> Prop) l l' :
  Forall2 R l l' -> Forall2 (fun b a => R a b) l' l.
Proof. intros H. induction H; constructor; assumption. Qed.

Lemma Forall2_In_r {A B} (R : A -> B -> Prop) l l' b :
  Forall2 R l l' -> In b l' -> exists a, In a l /\ R a b.
Proof.
  intros H. induction H as [|a0 b0 l l' H0 H IH]; intros Hb; [destruct Hb|].
  destruct Hb as [<-|Hb].
  - exists a0. split; [left; reflexivity | exact H0].
  - destruct (IH Hb) as [a [Ha HR]]. exists a. split; [right; exact Ha | exact HR].
Qed.

Lemma Forall2_In_l {A B} (R : A -> B -> Prop) l l' a :
  Forall2 R l l' -> In a l -> exists b, In b l' /\ R a b.
Proof.
  intros H. induction H as [|a0 b0 l l' H0 H IH]; intros Ha; [destruct Ha|].
  destruct Ha as [<-|Ha].
  - exists b0. split; [left; reflexivity | exact H0].
  - destruct (IH Ha) as [b [Hb HR]]. exists b. split; [right; exact Hb | exact HR].
Qed.

Lemma Forall2_exists {A B} (R : A -> B -> Prop) (l : list A) :
  (forall a, In a l -> exists b, R a b) -> exists l', Forall2 R l l'.
Proof.
  induction l as [|a l IH]; intros H.
  - exists []. constructor.
  - destruct (H a (or_introl eq_refl)) as [b Hb].
    destruct IH as [l' Hl']; [intros a' Ha'; apply H; right; exact Ha'|].
    exists (b :: l'). constructor; assumption.
Qed.

Lemma Forall2_strengthen_r {A B} (R : A -> B -> Prop) (P : B -> Prop) l l' :
  Forall2 R l l' -> (forall b, In b l' -> P b) -> Forall2 (fun a b => P b /\ R a b) l l'.
Proof.
  intros H. induction H as [|a b l l' H0 H IH]; intros HP; constructor.
  - split; [apply HP; left; reflexivity | exact H0].
  - apply IH. intros b' Hb'. apply HP. right. exact Hb'.
Qed.

Lemma NoDup_map_inj {A B} (f : A -> B) l a b :
  NoDup (map f l) -> In a l -> In b l -> f a = f b -> a = b.
Proof.
  induction l as [|c l IH]; intros H Ha Hb E; [destruct Ha|].
  cbn [map] in H. inversion H as [|? ? Hn Hnd]; subst.
  destruct Ha as [->|Ha]; destruct Hb as [->|Hb].
  - reflexivity.
  - exfalso. apply Hn. rewrite E. apply in_map, Hb.
  - exfalso. apply Hn. rewrite <- E. apply in_map, Ha.
  - apply IH; assumption.
Qed.

(* ------------------------------------------------------------ sets of covers *)
Definition has (F : family) (C : list box) : Prop :=
  exists C', In C' F /\ same_set C C'.
Definition fam_nodup (F : family) : Prop := forall c, In c F -> NoDup c.

Lemma has_same F C D : same_set C D -> has F D -> has F C.
Proof.
  intros H [D' [A B]]. exists D'. split; [exact A|]. eapply same_set_trans; eassumption.
Qed.

Lemma has_in F C : In C F -> has F C.
Proof. intros H. exists C. split; [exact H | apply same_set_refl]. Qed.

Lemma add_cover_In c F q : In q (add_cover c F) -> In q F \/ q = c.
Proof.
  unfold add_cover. destruct (anyb (same_setb c) F); [left; assumption|].
  intros H. apply in_app_iff in H. destruct H as [H | [<- | [] ] ]; auto.
Qed.

Lemma add_cover_incl c F q : In q F -> In q (add_cover c F).
Proof.
  unfold add_cover. destruct (anyb (same_setb c) F); [auto|].
  intros H. apply in_app_iff. left. exact H.
Qed.

Lemma add_cover_has c F : has (add_cover c F) c.
Proof.
  unfold add_cover. destruct (anyb (same_setb c) F) eqn:E.
  - rewrite anyb_existsb in E. apply existsb_exists in E. destruct E as [d [Hd Hs]].
    exists d. split; [exact Hd | apply same_setb_true, Hs].
  - exists c. split; [apply in_app_iff; right; left; reflexivity | apply same_set_refl].
Qed.

Lemma union_fam_incl G : forall F q, In q F -> In q (union_fam F G).
Proof.
  unfold union_fam. induction G as [|c G IH]; intros F q H; cbn [fold_left]; [exact H|].
  apply IH, add_cover_incl, H.
Qed.

Lemma union_fam_In G : forall F q, In q (union_fam F G) -> In q F \/ In q G.
Proof.
  unfold union_fam. induction G as [|c G IH]; intros F q H; cbn [fold_left] in H; [left; exact H|].
  destruct (IH _ _ H) as [H1|H1]; [|right; right; exact H1].
  destruct (add_cover_In _ _ _ H1) as [H2 | ->]; [left; exact H2 | right; left; reflexivity].
Qed.

Lemma union_fam_has_l F G C : has F C -> has (union_fam F G) C.
Proof. intros [C' [A B]]. exists C'. split; [apply union_fam_incl, A | exact B]. Qed.

Lemma union_fam_has_r G : forall F c, In c G -> has (union_fam F G) c.
Proof.
  unfold union_fam. induction G as [|c0 G IH]; intros F c H; [destruct H|].
  cbn [fold_left]. destruct H as [->|H].
  - destruct (add_cover_has c F) as [d [Hd Hs]]. exists d. split; [|exact Hs].
    apply (union_fam_incl G), Hd.
  - apply IH, H.
Qed.

Lemma union_fam_has_r' F G C : has G C -> has (union_fam F G) C.
Proof.
  intros [C' [A B]]. apply (has_same _ C C' B). apply union_fam_has_r, A.
Qed.

Lemma union_fam_nodup F G : fam_nodup F -> fam_nodup G -> fam_nodup (union_fam F G).
Proof.
  intros HF HG c Hc. destruct (union_fam_In _ _ _ Hc) as [H|H]; [apply HF, H | apply HG, H].
Qed.

Lemma same_set_NoDup_length (A B : list box) :
  NoDup A -> NoDup B -> same_set A B -> length A = length B.
Proof.
  intros HA HB [H1 H2].
  pose proof (NoDup_incl_length HA H1). pose proof (NoDup_incl_length HB H2). lia.
Qed.

Lemma same_set_app_union (p : list box) z zs :
  same_set (union p [z] ++ zs) (p ++ z :: zs).
Proof.
  split; intros b Hb; apply in_app_iff in Hb; apply in_app_iff.
  - destruct Hb as [Hb|Hb]; [|right; right; exact Hb].
    apply union_In in Hb. destruct Hb as [Hb | [<- | [] ] ]; [left; exact Hb | right; left; reflexivity].
  - destruct Hb as [Hb|[<-|Hb]].
    + left. apply union_In. left. exact Hb.
    + left. apply union_In. right. left. reflexivity.
    + right. exact Hb.
Qed.

(* ------------------------------------------------------------ folds in the error monad *)
Lemma fold_right_bind_app {A B} (g : A -> res (list B)) l next :
  fold_right (fun p acc =>
     bind acc (fun done => bind (g p) (fun news => ok (news ++ done)))) (ok []) l = inl next ->
  (forall p, In p l -> exists news, g p = inl news /\ incl news next) /\
  (forall q, In q next -> exists p news, In p l /\ g p = inl news /\ In q news).
Proof.
  revert next. induction l as [|p0 l IH]; intros next H; cbn [fold_right] in H.
  - inversion H; subst. split; [intros p []|intros q []].
  - apply bind_inl in H. destruct H as [done [Hd H]].
    apply bind_inl in H. destruct H as [news [Hn H]]. inversion H; subst next.
    destruct (IH done Hd) as [IH1 IH2]. split.
    + intros p [<-|Hp].
      * exists news. split; [exact Hn|]. intros b Hb. apply in_app_iff. left. exact Hb.
      * destruct (IH1 p Hp) as [nw [Ha Hb']]. exists nw. split; [exact Ha|].
        intros b Hb. apply in_app_iff. right. apply Hb', Hb.
    + intros q Hq. apply in_app_iff in Hq. destruct Hq as [Hq|Hq].
      * exists p0, news. split; [left; reflexivity|]. split; assumption.
      * destruct (IH2 q Hq) as [p [nw [Ha [Hb Hc]]]]. exists p, nw.
        split; [right; exact Ha|]. split; assumption.
Qed.

Lemma fold_right_bind_cons (h : box -> list box) (k : nat) (E : err) succ news :
  fold_right (fun z acc =>
     bind acc (fun news =>
       let new := h z in
       if Nat.eqb (length new) k then ok (new :: news) else fail E)) (ok []) succ = inl news ->
  (forall z, In z succ -> In (h z) news) /\
  (forall q, In q news -> exists z, In z succ /\ q = h z).
Proof.
  revert news. induction succ as [|z0 succ IH]; intros news H; cbn [fold_right] in H.
  - inversion H; subst. split; [intros z []|intros q []].
  - apply bind_inl in H. destruct H as [nw [Hn H]]. cbv zeta in H.
    destruct (Nat.eqb (length (h z0)) k); [|discriminate]. inversion H; subst news.
    destruct (IH nw Hn) as [IH1 IH2]. split.
    + intros z [<-|Hz]; [left; reflexivity | right; apply IH1, Hz].
    + intros q [<-|Hq]; [exists z0; split; [left|]; reflexivity|].
      destruct (IH2 q Hq) as [z [A B]]. exists z. split; [right; exact A | exact B].
Qed.

Lemma fold_left_bind_inr {A} (h : A -> res family) l e :
  fold_left (fun acc c =>
     bind acc (fun done => bind (h c) (fun b => ok (union_fam done b)))) l (inr e) = inr e.
Proof. induction l as [|c l IH]; cbn [fold_left bind]; [reflexivity | exact IH]. Qed.

Lemma fold_left_bind_union {A} (h : A -> res family) l : forall init r,
  fold_left (fun acc c =>
     bind acc (fun done => bind (h c) (fun b => ok (union_fam done b)))) l (inl init) = inl r ->
  (forall C, has init C -> has r C) /\
  (forall c, In c l -> exists b, h c = inl b /\ forall C, has b C -> has r C) /\
  (forall q, In q r -> In q init \/ exists c b, In c l /\ h c = inl b /\ In q b).
Proof.
  induction l as [|c0 l IH]; intros init r H; cbn [fold_left] in H.
  - inversion H; subst. split; [auto|]. split; [intros c []|]. intros q Hq. left. exact Hq.
  - cbn [bind] in H. destruct (h c0) as [b0|e] eqn:Eh.
    + cbn [bind ok] in H. destruct (IH _ _ H) as [I1 [I2 I3]]. split; [|split].
      * intros C HC. apply I1, union_fam_has_l, HC.
      * intros c [<-|Hc].
        -- exists b0. split; [exact Eh|]. intros C HC. apply I1, union_fam_has_r', HC.
        -- apply I2, Hc.
      * intros q Hq. destruct (I3 q Hq) as [Hq'|[c [b [Ha [Hb Hc]]]]].
        -- destruct (union_fam_In _ _ _ Hq') as [H1|H1]; [left; exact H1|].
           right. exists c0, b0. split; [left; reflexivity|]. split; assumption.
        -- right. exists c, b. split; [right; exact Ha|]. split; assumption.
    + cbn [bind] in H. rewrite fold_left_bind_inr in H. discriminate.
Qed.

(* ------------------------------------------------------------ _below_and_suff *)
Lemma below_and_suff_In ymax cover X Y yk z :
  below_and_suff ymax cover X Y = inl yk ->
  (In z yk <->
   In z Y /\ box_le z ymax /\
   forall p, In p X -> (forall o, In o (diff cover [ymax]) -> ~ box_le p o) -> box_le p z).
Proof.
  unfold below_and_suff. intros H.
  apply check_inl in H. destruct H as [_ H]. cbv zeta in H.
  apply check_inl in H. destruct H as [_ H].
  apply check_inl in H. destruct H as [_ H]. inversion H; subst yk. clear H.
  rewrite filter_In, filter_In, box_leb_true, allb_forallb, forallb_forall.
  split.
  - intros [[Hz Hall] Hle]. split; [exact Hz|]. split; [exact Hle|].
    intros p Hp Hno. apply box_leb_true, Hall. apply filter_In. split; [exact Hp|].
    apply negb_true_iff. rewrite anyb_existsb. destruct (existsb _ _) eqn:E; [|reflexivity].
    apply existsb_exists in E. destruct E as [o [Ho Hle']]. exfalso.
    apply (Hno o Ho). apply box_leb_true, Hle'.
  - intros [Hz [Hle Hall]]. split; [|exact Hle]. split; [exact Hz|].
    intros p Hp. apply filter_In in Hp. destruct Hp as [Hp Hn].
    apply box_leb_true, Hall; [exact Hp|]. intros o Ho Hpo.
    apply negb_true_iff in Hn. rewrite anyb_existsb in Hn.
    assert (T : existsb (box_leb p) (diff cover [ymax]) = true).
    { apply existsb_exists. exists o. split; [exact Ho | apply box_leb_true, Hpo]. }
    congruence.
Qed.

Section Enumerations.
Variable X Y : list box.

(* ------------------------------------------------------------ _enumerate_mincovers_below *)
Lemma below_expand_succ n k tail p news m tail' :
  tail = m :: tail' ->
  below_expand n k tail X Y p = inl news ->
  exists succ, below_and_suff m (union p tail) X Y = inl succ /\
    (forall z, In z succ -> In (union p [z]) news) /\
    (forall q, In q news -> exists z, In z succ /\ q = union p [z]).
Proof.
  intros -> H. unfold below_expand in H.
  apply check_inl in H. destruct H as [_ H]. cbv zeta in H.
  destruct (negb (Nat.eqb (length (union p (m :: tail'))) n)); [discriminate|].
  apply bind_inl in H. destruct H as [succ [Hs H]].
  exists succ. split; [exact Hs|].
  apply (fold_right_bind_cons (fun z => union p [z]) k E425 succ news H).
Qed.

Lemma below_levels_complete : forall tail n k partials r,
  below_levels n k tail X Y partials = inl r ->
  NoDup tail -> antichain tail ->
  forall p zs, In p partials ->
    Forall2 (fun m z => In z Y /\ box_le z m) tail zs ->
    (forall w, In w p -> ~ In w tail) ->
    cov (p ++ zs) X ->
    exists q, In q r /\ same_set q (p ++ zs).
Proof.
  induction tail as [|m tail' IH]; intros n k partials r H Hnd Hac p zs Hp HF Hdis Hcov.
  - inversion HF; subst. cbn [below_levels] in H. inversion H; subst r.
    exists p. split; [exact Hp|]. rewrite app_nil_r. apply same_set_refl.
  - inversion HF as [|? z ? zs' [HzY Hzm] HF']; subst.
    cbn [below_levels] in H. apply bind_inl in H. destruct H as [next [Hfold Hrec]].
    destruct (fold_right_bind_app _ _ _ Hfold) as [Hall _].
    destruct (Hall p Hp) as [news [Hexp Hinc]].
    destruct (below_expand_succ n k (m :: tail') p news m tail' eq_refl Hexp)
      as [succ [Hsucc [Hin _]]].
    inversion Hnd as [|? ? Hm Hnd']; subst.
    assert (Hz : In z succ).
    { apply (below_and_suff_In _ _ _ _ _ z Hsucc). split; [exact HzY|]. split; [exact Hzm|].
      intros x Hx Hno. destruct (Hcov x Hx) as [w [Hw Hle]].
      apply in_app_iff in Hw. destruct Hw as [Hw|[<-|Hw]].
      - exfalso. apply (Hno w); [|exact Hle]. apply diff_In. split.
        + apply union_In. left. exact Hw.
        + intros [<-|[]]. apply (Hdis m Hw). left. reflexivity.
      - exact Hle.
      - exfalso. destruct (Forall2_In_r _ _ _ _ HF' Hw) as [m' [Hm' [_ Hwm']]].
        apply (Hno m').
        + apply diff_In. split; [apply union_In; right; right; exact Hm'|].
          intros [<-|[]]. apply Hm, Hm'.
        + apply box_le_trans with w; assumption. }
    assert (Hac' : antichain tail').
    { intros a b Ha Hb. apply Hac; right; assumption. }
    destruct (IH n (S k) next r Hrec Hnd' Hac' (union p [z]) zs' (Hinc _ (Hin z Hz)) HF')
      as [q [Hq Hs]].
    + intros w Hw Hwt. apply union_In in Hw. destruct Hw as [Hw | [<- | [] ] ].
      * apply (Hdis w Hw). right. exact Hwt.
      * assert (Ezm : z = m) by (apply Hac; [right; exact Hwt | left; reflexivity | exact Hzm]).
        rewrite Ezm in Hwt. apply Hm, Hwt.
    + intros x Hx. destruct (Hcov x Hx) as [w [Hw Hle]]. exists w. split; [|exact Hle].
      apply (proj2 (same_set_app_union p z zs')), Hw.
    + exists q. split; [exact Hq|].
      eapply same_set_trans; [exact Hs | apply same_set_app_union].
Qed.

Lemma enumerate_below_complete lm r zs :
  enumerate_below lm X Y = inl r ->
  NoDup lm -> antichain lm ->
  Forall2 (fun m z => In z Y /\ box_le z m) lm zs -> cov zs X ->
  has r zs.
Proof.
  unfold enumerate_below. intros H Hnd Hac HF Hcov.
  apply check_inl in H. destruct H as [_ H]. cbv zeta in H.
  apply check_inl in H. destruct H as [_ H].
  apply bind_inl in H. destruct H as [r0 [Hl H]]. cbv zeta in H.
  apply check_inl in H. destruct H as [_ H]. inversion H; subst r.
  destruct (below_levels_complete _ _ _ _ _ Hl Hnd Hac [] zs (or_introl eq_refl) HF)
    as [q [Hq Hs]]; [intros w [] | exact Hcov |].
  apply (has_same _ zs q); [apply same_set_sym, Hs|].
  apply union_fam_has_r, Hq.
Qed.

(* the partial covers stay duplicate-free *)
Lemma below_levels_nodup : forall tail n k partials r,
  below_levels n k tail X Y partials = inl r -> fam_nodup partials -> fam_nodup r.
Proof.
  induction tail as [|m tail' IH]; intros n k partials r H Hp.
  - cbn [below_levels] in H. inversion H; subst. exact Hp.
  - cbn [below_levels] in H. apply bind_inl in H. destruct H as [next [Hfold Hrec]].
    apply (IH _ _ _ _ Hrec). intros q Hq.
    destruct (fold_right_bind_app _ _ _ Hfold) as [_ Hall].
    destruct (Hall q Hq) as [p [news [Hp' [Hexp Hqn]]]].
    destruct (below_expand_succ n k (m :: tail') p news m tail' eq_refl Hexp)
      as [succ [_ [_ Hback]]].
    destruct (Hback q Hqn) as [z [_ ->]].
    apply union_NoDup; [apply Hp, Hp' | constructor; [intros [] | constructor]].
Qed.

Lemma enumerate_below_nodup lm r :
  enumerate_below lm X Y = inl r -> fam_nodup r.
Proof.
  unfold enumerate_below. intros H.
  apply check_inl in H. destruct H as [_ H]. cbv zeta in H.
  apply check_inl in H. destruct H as [_ H].
  apply bind_inl in H. destruct H as [r0 [Hl H]]. cbv zeta in H.
  apply check_inl in H. destruct H as [_ H]. inversion H; subst r.
  apply union_fam_nodup; [intros c []|].
  apply (below_levels_nodup _ _ _ _ _ Hl). intros c [<-|[]]. constructor.
Qed.

(* ------------------------------------------------------------ _enumerate_mincovers_unfloor *)
Lemma unfloor_levels_step k yfloor lm' partials r :
  unfloor_levels k (yfloor :: lm') Y partials = inl r ->
  exists next,
    unfloor_levels (S k) lm' Y next = inl r /\
    (forall p z, In p partials -> In z (those_over Y yfloor) -> In (union p [z]) next) /\
    (forall q, In q next -> exists p z, In p partials /\ q = union p [z]).
Proof.
  cbn [unfloor_levels]. intros H. apply check_inl in H. destruct H as [_ H].
  apply bind_inl in H. destruct H as [next [Hfold Hrec]].
  exists next. split; [exact Hrec|].
  destruct (fold_right_bind_app _ _ _ Hfold) as [Hall Hback]. split.
  - intros p z Hp Hz. destruct (Hall p Hp) as [news [Hn Hinc]].
    apply Hinc. apply (fold_right_bind_cons (fun z => union p [z]) k EAssert _ _ Hn). exact Hz.
  - intros q Hq. destruct (Hback q Hq) as [p [news [Hp [Hn Hqn]]]].
    destruct (proj2 (fold_right_bind_cons (fun z => union p [z]) k EAssert _ _ Hn) q Hqn)
      as [z [_ ->]].
    exists p, z. split; [exact Hp | reflexivity].
Qed.

Lemma unfloor_levels_complete : forall lm k partials r,
  unfloor_levels k lm Y partials = inl r ->
  forall p cs, In p partials ->
    Forall2 (fun f c => In c Y /\ box_le f c) lm cs ->
    exists q, In q r /\ same_set q (p ++ cs).
Proof.
  induction lm as [|f lm' IH]; intros k partials r H p cs Hp HF.
  - inversion HF; subst. cbn [unfloor_levels] in H. inversion H; subst r.
    exists p. split; [exact Hp|]. rewrite app_nil_r. apply same_set_refl.
  - inversion HF as [|? c ? cs' [HcY Hfc] HF']; subst.
    destruct (unfloor_levels_step _ _ _ _ _ H) as [next [Hrec [Hstep _]]].
    assert (Hn : In (union p [c]) next).
    { apply Hstep; [exact Hp|]. apply those_over_In. split; assumption. }
    destruct (IH _ _ _ Hrec (union p [c]) cs' Hn HF') as [q [Hq Hs]].
    exists q. split; [exact Hq|].
    eapply same_set_trans; [exact Hs | apply same_set_app_union].
Qed.

Lemma unfloor_levels_nodup : forall lm k partials r,
  unfloor_levels k lm Y partials = inl r -> fam_nodup partials -> fam_nodup r.
Proof.
  induction lm as [|f lm' IH]; intros k partials r H Hp.
  - cbn [unfloor_levels] in H. inversion H; subst. exact Hp.
  - destruct (unfloor_levels_step _ _ _ _ _ H) as [next [Hrec [_ Hback]]].
    apply (IH _ _ _ Hrec). intros q Hq. destruct (Hback q Hq) as [p [z [Hp' ->]]].
    apply union_NoDup; [apply Hp, Hp' | constructor; [intros [] | constructor]].
Qed.

Lemma enumerate_unfloor_complete lm r cs :
  enumerate_unfloor lm Y = inl r ->
  Forall2 (fun f c => In c Y /\ box_le f c) lm cs ->
  has r cs.
Proof.
  unfold enumerate_unfloor. intros H HF.
  apply check_inl in H. destruct H as [_ H].
  apply bind_inl in H. destruct H as [r0 [Hl H]]. cbv zeta in H.
  apply check_inl in H. destruct H as [_ H]. inversion H; subst r.
  destruct (unfloor_levels_complete _ _ _ _ Hl [] cs (or_introl eq_refl) HF) as [q [Hq Hs]].
  apply (has_same _ cs q); [apply same_set_sym, Hs|].
  apply union_fam_has_r, Hq.
Qed.

Lemma enumerate_unfloor_nodup lm r :
  enumerate_unfloor lm Y = inl r -> fam_nodup r.
Proof.
  unfold enumerate_unfloor. intros H.
  apply check_inl in H. destruct H as [_ H].
  apply bind_inl in H. destruct H as [r0 [Hl H]]. cbv zeta in H.
  apply check_inl in H. destruct H as [_ H]. inversion H; subst r.
  apply union_fam_nodup; [intros c []|].
  apply (unfloor_levels_nodup _ _ _ _ Hl). intros c [<-|[]]. constructor.
Qed.
End Enumerations.

(* ------------------------------------------------------------ _mincovers_from_floor / _unfloor *)
Lemma from_floor_complete core X Yfl fl c zs :
  from_floor core X Yfl = inl fl -> In c core ->
  NoDup c -> antichain c ->
  Forall2 (fun m z => In z Yfl /\ box_le z m) c zs -> cov zs X ->
  has fl zs.
Proof.
  unfold from_floor. intros H Hc Hnd Hac HF Hcov.
  apply bind_inl in H. destruct H as [r [Hf H]].
  apply check_inl in H. destruct H as [_ H]. inversion H; subst fl.
  destruct (fold_left_bind_union _ _ _ _ Hf) as [_ [Hall _]].
  destruct (Hall c Hc) as [b [Hb Hhas]]. apply Hhas.
  apply (enumerate_below_complete X Yfl c b zs Hb Hnd Hac HF Hcov).
Qed.

Lemma from_unfloor_complete fl Y mc c cs :
  from_unfloor fl Y = inl mc -> In c fl ->
  Forall2 (fun f y => In y Y /\ box_le f y) c cs ->
  has mc cs.
Proof.
  unfold from_unfloor. intros H Hc HF.
  apply bind_inl in H. destruct H as [r [Hf H]].
  apply check_inl in H. destruct H as [_ H]. inversion H; subst mc.
  destruct (fold_left_bind_union _ _ _ _ Hf) as [_ [Hall _]].
  destruct (Hall c Hc) as [b [Hb Hhas]]. apply Hhas.
  apply (enumerate_unfloor_complete Y c b cs Hb HF).
Qed.

Lemma from_unfloor_nodup fl Y mc : from_unfloor fl Y = inl mc -> fam_nodup mc.
Proof.
  unfold from_unfloor. intros H.
  apply bind_inl in H. destruct H as [r [Hf H]].
  apply check_inl in H. destruct H as [_ H]. inversion H; subst mc.
  destruct (fold_left_bind_union _ _ _ _ Hf) as [_ [_ Hback]].
  intros q Hq. destruct (Hback q Hq) as [[]|[c [b [_ [Hb Hqb]]]]].
  apply (enumerate_unfloor_nodup Y c b Hb q Hqb).
Qed.
