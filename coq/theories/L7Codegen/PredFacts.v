(* L7 / PredFacts: laws of the BDD-by-meaning algebra of Pred.v. *)
From Coq Require Import List Bool Arith Lia.
Import ListNotations.
From Omega Require Import L7Codegen.Pred.

(* --- tabulation is invisible ------------------------------------------- *)
Lemma lookup_tabulate n : forall p a b,
  lookup (tabulate n p) a = Some b -> b = p a.
Proof.
  induction n as [|k IH]; intros p a b H; cbn in H.
  - destruct a; [injection H as <-; reflexivity | discriminate].
  - destruct a as [|x r]; [discriminate|].
    destruct x; apply IH in H; exact H.
Qed.

Lemma memo_id n p a : memo n p a = p a.
Proof.
  unfold memo. destruct (lookup (tabulate n p) a) eqn:E; [|reflexivity].
  exact (lookup_tabulate n p a b E).
Qed.

(* --- assignments -------------------------------------------------------- *)
Lemma upd_length : forall a i b, length (upd a i b) = length a.
Proof. induction a as [|x r IH]; intros [|i] b; cbn; auto. Qed.

Lemma upd_upd : forall a i b c, upd (upd a i b) i c = upd a i c.
Proof. induction a as [|x r IH]; intros [|i] b c; cbn; auto. f_equal; auto. Qed.

Lemma upd_comm : forall a i j b c, i <> j ->
  upd (upd a i b) j c = upd (upd a j c) i b.
Proof.
  induction a as [|x r IH]; intros [|i] [|j] b c H; cbn; auto; try congruence.
  f_equal. apply IH. congruence.
Qed.

Lemma upd_get : forall a i, upd a i (get a i) = a.
Proof.
  unfold get. induction a as [|x r IH]; intros [|i]; cbn; auto. f_equal; auto.
Qed.

Lemma upd_noop : forall a i b, length a <= i -> upd a i b = a.
Proof.
  induction a as [|x r IH]; intros [|i] b H; cbn in *; auto; try lia.
  f_equal. apply IH. lia.
Qed.

Lemma get_upd_same : forall a i b, i < length a -> get (upd a i b) i = b.
Proof.
  unfold get. induction a as [|x r IH]; intros [|i] b H; cbn in *; auto; try lia.
  apply IH. lia.
Qed.

Lemma get_upd_other : forall a i j b, i <> j -> get (upd a i b) j = get a j.
Proof.
  unfold get. induction a as [|x r IH]; intros [|i] [|j] b H; cbn; auto; try congruence.
Qed.

Lemma get_beyond : forall a i, length a <= i -> get a i = false.
Proof. unfold get. intros. apply nth_overflow. assumption. Qed.

Lemma all_asg_spec : forall n a, In a (all_asg n) <-> length a = n.
Proof.
  induction n as [|k IH]; intro a; cbn.
  - split; [intros [<-|[]]; reflexivity|]. destruct a; [auto|discriminate].
  - rewrite in_app_iff, !in_map_iff. split.
    + intros [[r [<- H]]|[r [<- H]]]; cbn; f_equal; apply IH; exact H.
    + destruct a as [|x r]; [discriminate|]. cbn. intro H. injection H as H.
      apply IH in H. destruct x; [right|left]; exists r; auto.
Qed.

(* --- the algebra -------------------------------------------------------- *)
Section Facts.
Variable n : nat.

Lemma pand_spec p q a : pand n p q a = p a && q a.
Proof. unfold pand. rewrite memo_id. reflexivity. Qed.
Lemma por_spec p q a : por n p q a = p a || q a.
Proof. unfold por. rewrite memo_id. reflexivity. Qed.
Lemma pnot_spec p a : pnot n p a = negb (p a).
Proof. unfold pnot. rewrite memo_id. reflexivity. Qed.
Lemma cofactor_spec p y b a : cofactor n p y b a = p (upd a y b).
Proof. unfold cofactor. rewrite memo_id. reflexivity. Qed.
Lemma subst_spec p y g a : subst n p y g a = p (upd a y (g a)).
Proof. unfold subst. rewrite memo_id. reflexivity. Qed.
Lemma exist1_spec y p a : exist1 n y p a = p (upd a y true) || p (upd a y false).
Proof. unfold exist1. rewrite memo_id. reflexivity. Qed.

Lemma is_false_spec p :
  is_false n p = true <-> forall a, length a = n -> p a = false.
Proof.
  unfold is_false. rewrite forallb_forall. split; intros H a Ha.
  - apply all_asg_spec in Ha. apply H in Ha. destruct (p a); [discriminate|reflexivity].
  - apply all_asg_spec in Ha. rewrite (H a Ha). reflexivity.
Qed.

(* p does not depend on bit y (on assignments to the n declared bits) *)
Definition indep (p : pred) (y : var) : Prop :=
  forall a b, length a = n -> p (upd a y b) = p a.

Lemma depends_false p y : depends n p y = false <-> indep p y.
Proof.
  unfold depends, indep. split.
  - intros H a b Ha.
    assert (E : p (upd a y true) = p (upd a y false)).
    { destruct (xorb (p (upd a y true)) (p (upd a y false))) eqn:X.
      - exfalso. assert (existsb (fun a => xorb (p (upd a y true)) (p (upd a y false)))
                           (all_asg n) = true).
        { apply existsb_exists. exists a. split; [apply all_asg_spec, Ha|exact X]. }
        congruence.
      - apply xorb_eq, X. }
    rewrite <- (upd_get a y) at 2.
    destruct b, (get a y); congruence.
  - intro H. destruct (existsb _ _) eqn:X; [|reflexivity]. exfalso.
    apply existsb_exists in X. destruct X as [a [Ha X]]. apply all_asg_spec in Ha.
    rewrite !H in X by exact Ha. rewrite xorb_nilpotent in X. discriminate.
Qed.

Lemma depends_lt p y : depends n p y = true -> y < n.
Proof.
  intro H. destruct (Nat.lt_ge_cases y n) as [L|L]; [exact L|exfalso].
  assert (depends n p y = false); [|congruence].
  apply depends_false. intros a b Ha. rewrite upd_noop by lia. reflexivity.
Qed.

(* assignments that agree outside the bits ys *)
Definition agree_out (ys : list var) (a b : asg) : Prop :=
  length b = length a /\ forall i, ~ In i ys -> get b i = get a i.

Lemma agree_out_refl ys a : agree_out ys a a.
Proof. split; auto. Qed.

Lemma exist_spec ys : forall p a,
  exist n ys p a = true <-> exists b, agree_out ys a b /\ p b = true.
Proof.
  induction ys as [|y ys IH]; intros p a; cbn [exist fold_right].
  - split.
    + intro H. exists a. split; [apply agree_out_refl|exact H].
    + intros [b [[L H] Hb]]. replace a with b; [exact Hb|].
      apply nth_ext with (d := false) (d' := false); [exact L|].
      intros i _. apply (H i). intros [].
  - rewrite exist1_spec. fold (exist n ys p). rewrite orb_true_iff, !IH. split.
    + intros [[b [[L H] Hb]]|[b [[L H] Hb]]]; exists b; (split; [|exact Hb]);
        (split; [rewrite L; apply upd_length|]);
        intros i Hi; rewrite H by (intro; apply Hi; right; assumption);
        apply get_upd_other; intro; apply Hi; left; assumption.
    + intros [b [[L H] Hb]].
      assert (A : agree_out ys (upd a y (get b y)) b).
      { split; [rewrite upd_length; exact L|]. intros i Hi.
        destruct (Nat.eq_dec i y) as [->|Ne].
        - destruct (Nat.lt_ge_cases y (length a)) as [Lt|Ge].
          + rewrite get_upd_same by exact Lt. reflexivity.
          + rewrite upd_noop by exact Ge. rewrite !get_beyond by lia. reflexivity.
        - rewrite get_upd_other by congruence. apply H. intros [E|E]; [congruence|auto]. }
      destruct (get b y); [left|right]; exists b; auto.
Qed.

(* a predicate that ignores every bit of ys takes the same value on
   assignments that agree outside ys *)
Lemma indep_agree ys : forall p a b,
  (forall y, In y ys -> indep p y) -> length a = n -> agree_out ys a b -> p a = p b.
Proof.
  induction ys as [|y ys IH]; intros p a b Hi La [L H].
  - f_equal. symmetry. apply nth_ext with (d := false) (d' := false); [exact L|].
    intros i _. apply (H i). intros [].
  - rewrite <- (Hi y (or_introl eq_refl) a (get b y) La).
    apply IH.
    + intros z Hz. apply Hi. right. exact Hz.
    + rewrite upd_length. exact La.
    + split; [rewrite upd_length; exact L|]. intros i Hn.
      destruct (Nat.eq_dec i y) as [->|Ne].
      * destruct (Nat.lt_ge_cases y (length a)) as [Lt|Ge].
        -- rewrite get_upd_same by exact Lt. reflexivity.
        -- rewrite upd_noop by exact Ge. rewrite !get_beyond by lia. reflexivity.
      * rewrite get_upd_other by congruence. apply H. intros [E|E]; [congruence|auto].
Qed.

(* independence is preserved by the operations *)
Lemma indep_pand p q y : indep p y -> indep q y -> indep (pand n p q) y.
Proof. intros Hp Hq a b L. rewrite !pand_spec, Hp, Hq by exact L. reflexivity. Qed.
Lemma indep_por p q y : indep p y -> indep q y -> indep (por n p q) y.
Proof. intros Hp Hq a b L. rewrite !por_spec, Hp, Hq by exact L. reflexivity. Qed.
Lemma indep_pnot p y : indep p y -> indep (pnot n p) y.
Proof. intros Hp a b L. rewrite !pnot_spec, Hp by exact L. reflexivity. Qed.

Lemma indep_exist1_same p y : indep (exist1 n y p) y.
Proof. intros a b L. rewrite !exist1_spec, !upd_upd. reflexivity. Qed.
Lemma indep_exist1 p y z : indep p y -> indep (exist1 n z p) y.
Proof.
  intros Hp a b L. destruct (Nat.eq_dec y z) as [->|Ne]; [apply indep_exist1_same, L|].
  rewrite !exist1_spec, !(upd_comm a y z) by exact Ne.
  rewrite !Hp by (rewrite upd_length; exact L). reflexivity.
Qed.
Lemma indep_exist p ys y : indep p y \/ In y ys -> indep (exist n ys p) y.
Proof.
  induction ys as [|z ys IH]; cbn [exist fold_right]; intros [H|H].
  - exact H.
  - destruct H.
  - apply indep_exist1, IH. left. exact H.
  - destruct H as [->|H]; [apply indep_exist1_same|apply indep_exist1, IH; right; exact H].
Qed.
Lemma indep_cofactor_same p y b : indep (cofactor n p y b) y.
Proof. intros a c L. rewrite !cofactor_spec, upd_upd. reflexivity. Qed.
Lemma indep_cofactor p y z b : indep p y -> indep (cofactor n p z b) y.
Proof.
  intros Hp a c L. destruct (Nat.eq_dec y z) as [->|Ne]; [apply indep_cofactor_same, L|].
  rewrite !cofactor_spec, (upd_comm a y z) by exact Ne.
  apply Hp. rewrite upd_length. exact L.
Qed.
(* after substituting g (which ignores y) for y, the result ignores y *)
Lemma indep_subst_same p y g : indep g y -> indep (subst n p y g) y.
Proof. intros Hg a b L. rewrite !subst_spec, upd_upd, Hg by exact L. reflexivity. Qed.
Lemma indep_subst p y z g : indep p y -> indep g y -> indep (subst n p z g) y.
Proof.
  intros Hp Hg a b L. destruct (Nat.eq_dec y z) as [->|Ne]; [apply indep_subst_same; assumption|].
  rewrite !subst_spec, Hg by exact L. rewrite (upd_comm a y z) by exact Ne.
  apply Hp. rewrite upd_length. exact L.
Qed.

End Facts.
