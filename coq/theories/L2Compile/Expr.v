(* L2 / Expr: the documented first-order expression grammar of omega
   (doc/doc.md, "Temporal logic syntax", the non-temporal productions), its
   meaning over unbounded integers ([sem]) and a model of the translation
   performed by bitvector.Nodes.*.flatten followed by the prefix evaluation of
   symbolic/bdd.py ([ceval]): the value, under one assignment of the bits, of
   the bit-vector / Boolean formula that the translator emits, or [None] where
   the translator raises.

   Names.  Declared variables are numbered ([EVar v], index into the table);
   names bound by LET / registered with Context.define are numbered in a
   separate name space ([EOp n]).  (In the code both live in one name space
   and a definition shadows a variable of the same name; formulas in which a
   definition re-uses the name of a declared variable are outside this
   model.)  A definition is a macro: it is expanded where it is used, under
   the priming and the quantifiers in force there, as in the code.

   Outside the model (not in the documented grammar, or not first-order):
   the renaming operator \S, BDD node references "@ n", the truncator <<>>,
   strings, the temporal operators.  A prime inside a prime is read as one
   prime (the code's [prime] flag is idempotent).

   No proofs here (see CompileProofs.v). *)
From Coq Require Import ZArith List Bool.
From Omega Require Import L1Circuits.Circuits.
Import ListNotations.
Open Scope Z_scope.

(* ------------------------------------------------------------------ syntax *)
Inductive aop := AAdd | ASub | AMul | ADiv | AMod.
Inductive bop := BAnd | BOr | BImp | BIff | BXor.

Inductive expr :=
| ETrue | EFalse
| ENum (z : Z)
| EVar (v : nat)
| EOp (n : nat)
| ENot (a : expr)
| EBin (o : bop) (a b : expr)
| ECmp (o : cmp) (a b : expr)
| EArith (o : aop) (a b : expr)
| EIn (a : expr) (lo hi : Z)                    (* a \in lo..hi *)
| EIte (c a b : expr)                           (* ite(c,a,b), IF c THEN a ELSE b *)
| ELet (n : nat) (d : expr) (body : expr)       (* LET n == d IN body *)
| EPrime (a : expr)                             (* a'  and  X a *)
| EQuant (fa : bool) (v : nat) (pv : bool) (body : expr).
   (* \A v: body (fa = true) or \E v: body; pv: the bound identifier is
      written primed (\E x': ...) *)

(* ------------------------------------------------------------ declarations *)
Inductive vtype := TBool | TInt (lo hi : Z).      (* type hints *)
Definition table := list vtype.

(* bitvector.dom_to_width: (signed, width) *)
Definition dom_to_width (lo hi : Z) : bool * nat :=
  let signed := (lo <? 0) && (0 <=? hi) in
  let width := bit_length (Z.max (Z.abs lo) (Z.abs hi)) in
  let width := match width with O => 1%nat | _ => width end in
  (signed, if signed then S width else width).

Definition nbits (ty : vtype) : nat :=
  match ty with TBool => 1%nat | TInt lo hi => snd (dom_to_width lo hi) end.

(* bitvector.var_to_twos_complement / _append_sign_bit on the values of the
   variable's bits *)
Definition var_bits (lo hi : Z) (bits : list bool) : list bool :=
  if fst (dom_to_width lo hi) then bits else bits ++ [lo <? 0].

(* representable values (_type_hints._bitfield_limits) *)
Definition limits (lo hi : Z) : Z * Z :=
  let '(signed, w) := dom_to_width lo hi in
  if signed then (- 2 ^ (Z.of_nat w - 1), 2 ^ (Z.of_nat w - 1) - 1)
  else if lo <? 0 then (- 2 ^ Z.of_nat w, -1)
  else (0, 2 ^ Z.of_nat w - 1).

(* ------------------------------------------------------------- assignments *)
(* bit assignment: for each declared variable the values of its bits
   (bitnames order, without the constant sign bit) for the unprimed and the
   primed copy *)
Definition benv := list (list bool * list bool).

(* integer/Boolean assignment: value of each variable, unprimed and primed *)
Inductive value := VB (b : bool) | VZ (z : Z).
Definition aenv := list (value * value).

Definition sel {A} (p : bool) (x : A * A) : A := if p then snd x else fst x.
Definition upd2 {A} (p : bool) (a : A) (x : A * A) : A * A :=
  if p then (fst x, a) else (a, snd x).

Fixpoint upd_nth {A} (l : list A) (i : nat) (f : A -> A) : list A :=
  match l, i with
  | [], _ => []
  | x :: r, O => f x :: r
  | x :: r, S i' => x :: upd_nth r i' f
  end.

Definition val_of (ty : vtype) (bits : list bool) : value :=
  match ty with
  | TBool => VB (hd false bits)
  | TInt lo hi => VZ (sval (var_bits lo hi bits))
  end.

Fixpoint alpha_of (t : table) (be : benv) : aenv :=
  match t, be with
  | ty :: t', (a, b) :: be' => (val_of ty a, val_of ty b) :: alpha_of t' be'
  | _, _ => []
  end.

(* ---------------------------------------------------------------- meaning *)
Inductive res := Ok (v : value) | DivZero | Ill.

Definition senv := list (nat * (aenv -> bool -> res)).

Fixpoint lookup {A} (n : nat) (env : list (nat * A)) : option A :=
  match env with
  | [] => None
  | (m, x) :: r => if Nat.eqb n m then Some x else lookup n r
  end.

Definition zrange (lo hi : Z) : list Z :=
  map (fun i => lo + Z.of_nat i) (seq 0 (Z.to_nat (hi - lo + 1))).

Definition values_of (ty : vtype) : list value :=
  match ty with
  | TBool => [VB false; VB true]
  | TInt lo hi => let '(l, h) := limits lo hi in map VZ (zrange l h)
  end.

Definition is_ill (r : res) := match r with Ill => true | _ => false end.
Definition is_dz (r : res) := match r with DivZero => true | _ => false end.
Definition res_true (r : res) := match r with Ok (VB true) => true | _ => false end.
Definition is_okb (r : res) := match r with Ok (VB _) => true | _ => false end.

Definition quant_res (fa : bool) (rs : list res) : res :=
  if negb (forallb (fun r => is_okb r || is_dz r) rs) then Ill
  else if existsb is_dz rs then DivZero
  else Ok (VB (if fa then forallb res_true rs else existsb res_true rs)).

Definition sem_bop (o : bop) (x y : bool) : bool :=
  match o with
  | BAnd => x && y | BOr => x || y | BImp => negb x || y
  | BIff => Bool.eqb x y | BXor => xorb x y
  end.

Definition sem_cmp (o : cmp) (x y : Z) : bool :=
  match o with
  | CLt => x <? y | CLe => x <=? y | CEq => x =? y
  | CNe => negb (x =? y) | CGe => x >=? y | CGt => x >? y
  end.

(* C99: quotient truncates toward zero, remainder has the dividend's sign *)
Definition sem_aop (o : aop) (x y : Z) : res :=
  match o with
  | AAdd => Ok (VZ (x + y)) | ASub => Ok (VZ (x - y)) | AMul => Ok (VZ (x * y))
  | ADiv => if y =? 0 then DivZero else Ok (VZ (Z.quot x y))
  | AMod => if y =? 0 then DivZero else Ok (VZ (Z.rem x y))
  end.

Definition bind2 (r1 r2 : res) (f : value -> value -> res) : res :=
  match r1, r2 with
  | Ill, _ | _, Ill => Ill
  | DivZero, _ | _, DivZero => DivZero
  | Ok a, Ok b => f a b
  end.

Definition sem_ite (rc ra rb : res) : res :=
  match rc, ra, rb with
  | Ok (VB g), Ok (VB x), Ok (VB y) => Ok (VB (if g then x else y))
  | Ok (VB g), Ok (VZ x), Ok (VZ y) => Ok (VZ (if g then x else y))
  | Ill, _, _ | _, Ill, _ | _, _, Ill => Ill
  | Ok (VZ _), _, _ => Ill
  | Ok (VB _), Ok (VB _), Ok (VZ _) | Ok (VB _), Ok (VZ _), Ok (VB _) => Ill
  | _, _, _ => DivZero
  end.

Fixpoint sem (t : table) (al : aenv) (env : senv) (prime : bool) (e : expr)
  {struct e} : res :=
  match e with
  | ETrue => Ok (VB true)
  | EFalse => Ok (VB false)
  | ENum z => Ok (VZ z)
  | EVar v =>
      match nth_error al v with
      | Some x => Ok (sel prime x)
      | None => Ill
      end
  | EOp n =>
      match lookup n env with
      | Some f => f al prime
      | None => Ill
      end
  | ENot a =>
      match sem t al env prime a with
      | Ok (VB b) => Ok (VB (negb b))
      | Ok _ => Ill
      | r => r
      end
  | EBin o a b =>
      bind2 (sem t al env prime a) (sem t al env prime b)
        (fun x y => match x, y with
                    | VB p, VB q => Ok (VB (sem_bop o p q))
                    | _, _ => Ill end)
  | ECmp o a b =>
      bind2 (sem t al env prime a) (sem t al env prime b)
        (fun x y => match x, y with
                    | VZ p, VZ q => Ok (VB (sem_cmp o p q))
                    | VB p, VB q =>
                        match o with
                        | CEq => Ok (VB (Bool.eqb p q))
                        | CNe => Ok (VB (xorb p q))
                        | _ => Ill
                        end
                    | _, _ => Ill end)
  | EArith o a b =>
      bind2 (sem t al env prime a) (sem t al env prime b)
        (fun x y => match x, y with
                    | VZ p, VZ q => sem_aop o p q
                    | _, _ => Ill end)
  | EIn a lo hi =>
      match sem t al env prime a with
      | Ok (VZ x) => Ok (VB ((lo <=? x) && (x <=? hi)))
      | Ok _ => Ill
      | r => r
      end
  | EIte c a b =>
      sem_ite (sem t al env prime c) (sem t al env prime a)
              (sem t al env prime b)
  | ELet n d body =>
      match lookup n env with
      | Some _ => Ill                               (* redefinition *)
      | None =>
          sem t al ((n, fun al' p => sem t al' env p d) :: env) prime body
      end
  | EPrime a => sem t al env true a
  | EQuant fa v pv body =>
      match nth_error t v with
      | None => Ill
      | Some ty =>
          let p := prime || pv in
          quant_res fa
            (map (fun x => sem t (upd_nth al v (upd2 p x)) env prime body)
                 (values_of ty))
      end
  end.

(* ------------------------------------------------------------ translation *)
Inductive cval := CB (b : bool) | CZ (l : list bool).

Definition cenv := list (nat * (benv -> bool -> bool -> option cval)).

Definition ALU_BITWIDTH : nat := 32.

(* the assertions of bitvector.sign_extension *)
Definition ext_ok (x : list bool) (n : nat) : bool :=
  (2 <=? length x)%nat && (length x <=? n)%nat && (n <? ALU_BITWIDTH)%nat.

Definition equalize_ok (x y : list bool) (extend_by : nat) : bool :=
  let n := (Nat.max (length x) (length y) + extend_by)%nat in
  ext_ok x n && ext_ok y n.

(* flatten_arithmetic with the width assertions reached on the way *)
Definition c_arith (o : aop) (x y : list bool) : option (list bool) :=
  match o with
  | AAdd => if equalize_ok x y 1
            then Some (fst (adder_subtractor x y true 1)) else None
  | ASub => if equalize_ok x y 1
            then Some (fst (adder_subtractor x y false 1)) else None
  | AMul => if equalize_ok x y (Nat.min (length x) (length y))
            then Some (multiplier x y) else None
  | ADiv | AMod =>
      let n := S (Nat.max (length x) (length y)) in
      if (2 <=? length x)%nat && (2 <=? length y)%nat
         && (2 * n <? ALU_BITWIDTH)%nat
      then let '(quo, rem) := restoring_divider x y in
           Some (match o with ADiv => quo | _ => rem end)
      else None
  end.

(* flatten_comparator *)
Definition c_cmp (o : cmp) (x y : list bool) : option bool :=
  let ok := match o with
            | CEq | CNe => equalize_ok x y 0
            | _ => equalize_ok x y 1
            end in
  if ok then Some (comparator o x y) else None.

Fixpoint all_bits (w : nat) : list (list bool) :=
  match w with
  | O => [[]]
  | S w' => let r := all_bits w' in
            map (cons false) r ++ map (cons true) r
  end.

Definition cb_true (r : option cval) :=
  match r with Some (CB true) => true | _ => false end.
Definition is_cb (r : option cval) :=
  match r with Some (CB _) => true | _ => false end.

Definition quant_c (fa : bool) (rs : list (option cval)) : option cval :=
  if forallb is_cb rs
  then Some (CB (if fa then forallb cb_true rs else existsb cb_true rs))
  else None.

(* [arith] = the flattener's [mem] argument is a list (arithmetic scope);
   [arith = false] = [mem is None] (Boolean scope) *)
Fixpoint ceval (t : table) (be : benv) (env : cenv) (prime arith : bool)
  (e : expr) {struct e} : option cval :=
  match e with
  | ETrue => Some (CB true)
  | EFalse => Some (CB false)
  | ENum z => Some (CZ (int_to_twos_complement z))
  | EVar v =>
      match nth_error t v, nth_error be v with
      | Some ty, Some x =>
          let bits := sel prime x in
          match ty with
          | TBool => Some (CB (hd false bits))
          | TInt lo hi =>
              let vb := var_bits lo hi bits in
              (* var_to_twos_complement: assert len(bits) > 1 *)
              if (2 <=? length vb)%nat then Some (CZ vb) else None
          end
      | _, _ => None
      end
  | EOp n =>
      match lookup n env with
      | Some f => f be prime arith
      | None => None
      end
  | ENot a =>
      match ceval t be env prime arith a with
      | Some (CB b) => Some (CB (negb b))
      | _ => None
      end
  | EBin o a b =>
      match ceval t be env prime arith a, ceval t be env prime arith b with
      | Some (CB x), Some (CB y) => Some (CB (sem_bop o x y))
      | _, _ => None
      end
  | ECmp o a b =>
      if arith then None                 (* "appears in arithmetic scope" *)
      else
        match ceval t be env prime true a, ceval t be env prime true b with
        | Some (CZ x), Some (CZ y) =>
            match c_cmp o x y with Some r => Some (CB r) | None => None end
        | Some (CB x), Some (CB y) =>
            match o with
            | CEq => Some (CB (negb (xorb x y)))
            | CNe => Some (CB (xorb x y))
            | _ => None
            end
        | _, _ => None
        end
  | EArith o a b =>
      if arith then
        match ceval t be env prime true a, ceval t be env prime true b with
        | Some (CZ x), Some (CZ y) =>
            match c_arith o x y with Some r => Some (CZ r) | None => None end
        | _, _ => None
        end
      else None                           (* "in Boolean scope" *)
  | EIn a lo hi =>
      (* the operand must flatten without a memory buffer *)
      match ceval t be env prime false a with
      | Some (CZ x) =>
          match c_cmp CLe (int_to_twos_complement lo) x,
                c_cmp CLe x (int_to_twos_complement hi) with
          | Some r1, Some r2 => Some (CB (r1 && r2))
          | _, _ => None
          end
      | _ => None
      end
  | EIte c a b =>
      match ceval t be env prime false c,
            ceval t be env prime arith a, ceval t be env prime arith b with
      | Some (CB g), Some (CB x), Some (CB y) =>
          if arith then None else Some (CB (ite_connective g x y))
      | Some (CB g), Some (CZ x), Some (CZ y) =>
          if arith then
            if equalize_ok x y 0
            then let '(p, q) := equalize_width x y 0 in
                 Some (CZ (ite_function g p q))
            else None
          else None
      | _, _, _ => None
      end
  | ELet n d body =>
      match lookup n env with
      | Some _ => None                    (* "attempted redefining" *)
      | None =>
          ceval t be ((n, fun be' p a => ceval t be' env p a d) :: env)
                prime arith body
      end
  | EPrime a => ceval t be env true arith a
  | EQuant fa v pv body =>
      if arith then None
      else
        match nth_error t v with
        | None => None
        | Some ty =>
            let p := prime || pv in
            quant_c fa
              (map (fun bs => ceval t (upd_nth be v (upd2 p bs)) env prime false body)
                   (all_bits (nbits ty)))
        end
  end.

(* top level: Context.add_expr(e) is a predicate *)
Definition compile (t : table) (e : expr) (be : benv) : option bool :=
  match ceval t be [] false false e with
  | Some (CB b) => Some b
  | _ => None
  end.

(* ------------------------------------------------------------ truth tables *)
(* all assignments of the listed (variable, primed?) slots, first slot most
   significant, each slot's bit vectors in [all_bits] order; other slots keep
   the value they have in [be0] *)
Fixpoint enum_benvs (t : table) (slots : list (nat * bool)) (be0 : benv)
  : list benv :=
  match slots with
  | [] => [be0]
  | (v, p) :: r =>
      flat_map (fun bs => enum_benvs t r (upd_nth be0 v (upd2 p bs)))
               (all_bits (match nth_error t v with Some ty => nbits ty | None => O end))
  end.

Definition zero_benv (t : table) : benv :=
  map (fun ty => (repeat false (nbits ty), repeat false (nbits ty))) t.

Definition truth_table (t : table) (slots : list (nat * bool)) (e : expr)
  : list (option bool) :=
  map (compile t e) (enum_benvs t slots (zero_benv t)).

(* bits of an arithmetic expression in arithmetic scope (what
   Arithmetic.flatten returns, evaluated) *)
Definition compile_bits (t : table) (e : expr) (be : benv) : option (list bool) :=
  match ceval t be [] false true e with
  | Some (CZ l) => Some l
  | _ => None
  end.

Definition bits_table (t : table) (slots : list (nat * bool)) (e : expr)
  : list (option (list bool)) :=
  map (compile_bits t e) (enum_benvs t slots (zero_benv t)).
