(* L3History / PrefixInst: the BDD algebra of Prefix.v instantiated with
   Boolean functions of the bits [names] (what dd's nodes denote), used to
   run the two translator models next to the real translators.

   `apply('\A' | '\E', u, v)` quantifies v over `support(u)` (dd.autoref;
   dd.cudd accepts only positive cubes for u, which is what omega emits and
   what the correspondence generator produces).  Integers other than 0 / 1
   (`_add_int`) and `\S` are not available: [None]. *)
From Coq Require Import List Bool String ZArith.
From Omega Require Import L3History.Prefix.
Import ListNotations.

Definition asg := list bool.
Definition bfun := asg -> bool.

Section Inst.
Variable names : list string.

Fixpoint pos_of (s : string) (l : list string) : option nat :=
  match l with
  | [] => None
  | x :: l' => if String.eqb s x then Some O
               else match pos_of s l' with Some i => Some (S i) | None => None end
  end.

Fixpoint all_asg (n : nat) : list asg :=
  match n with
  | O => [[]]
  | S n' => map (cons false) (all_asg n') ++ map (cons true) (all_asg n')
  end.

Fixpoint set_nth (i : nat) (b : bool) (a : asg) : asg :=
  match i, a with
  | O, _ :: a' => b :: a'
  | S i', x :: a' => x :: set_nth i' b a'
  | _, [] => []
  end.

Definition nvars : nat := List.length names.

Definition depends_on (u : bfun) (i : nat) : bool :=
  existsb (fun a => xorb (u (set_nth i true a)) (u (set_nth i false a)))
          (all_asg nvars).

Definition bsupport (u : bfun) : list nat :=
  filter (depends_on u) (seq 0 nvars).

Definition q_all (i : nat) (v : bfun) : bfun :=
  fun a => v (set_nth i true a) && v (set_nth i false a).
Definition q_ex (i : nat) (v : bfun) : bfun :=
  fun a => v (set_nth i true a) || v (set_nth i false a).

Definition ivar (s : string) : option bfun :=
  match pos_of s names with
  | Some i => Some (fun a => nth i a false)
  | None => None
  end.

Definition inode (z : Z) : option bfun := None.
Definition iap1 (u : bfun) : option bfun := Some (fun a => negb (u a)).
Definition iap2 (op : binop) (u v : bfun) : option bfun :=
  match op with
  | And => Some (fun a => u a && v a)
  | Or => Some (fun a => u a || v a)
  | Xor => Some (fun a => xorb (u a) (v a))
  | Forall => Some (fold_right q_all v (bsupport u))
  | Exists => Some (fold_right q_ex v (bsupport u))
  | Rename => None
  end.
Definition iren (m : list bfun) (u : bfun) : option bfun := None.

Definition itrue : bfun := fun _ => true.
Definition ifalse : bfun := fun _ => false.

Definition rec_model (toks : list tok) : option bfun :=
  rec_add_expr bfun itrue ifalse ivar inode iap1 iap2 iren toks.
Definition iter_model (toks : list tok) : option bfun :=
  iter_add_expr bfun itrue ifalse ivar inode iap1 iap2 toks.

Definition table_of (r : option bfun) : option (list bool) :=
  match r with
  | Some d => Some (map d (all_asg nvars))
  | None => None
  end.

Definition otable_eqb (a b : option (list bool)) : bool :=
  match a, b with
  | None, None => true
  | Some x, Some y =>
      Nat.eqb (List.length x) (List.length y) &&
      forallb (fun p => Bool.eqb (fst p) (snd p)) (combine x y)
  | _, _ => false
  end.
End Inst.
