(* Where the Rabin transducer model certainly offers a step (arbitrary iterate
   lists with the structure rounds_ok + rounds_nb): at every valuation of the
   last z, with the memory in range, unless
     (F12) _hold = i < number of persistence sets and the state is outside
           y_{k,i} for its own level k (first z_k containing it).
   The second class in which the construction used to block,
     (F3)  _hold = none, strict causality, and the state is an environment
           dead end (in cpre(FALSE)),
   is gone with the repair of rho_1 (basin starts EMPTY, every z of zk is
   served): [rabin_dead_end_step] - wherever the previous basin of the state's
   level, or the empty set at level 0, can be forced, rho_1 offers a step,
   whatever the memory. *)
From Coq Require Import List Bool Arith Lia.
Import ListNotations.
From Omega Require Import L4.Arena L4.ArenaFacts L4.Kleene L4.AlgOrder L4.GameSpec.
From OmegaGen Require Import FixpointGen Gr1Gen.
From OmegaGP Require Import FixpointProofs TransducerModel CaSpec StreettNB1 StreettNB2
  StreettClosure1 RabinClosure1 RabinIter1 RabinClosure2 RabinLive1 RabinNB1 RabinNB2.

(* ---- list helpers ----------------------------------------------------------- *)
Lemma first_in (l : list bdd) : forall (d : bdd) s,
  last l d s = true -> d s = false ->
  exists l1 x l2, l = l1 ++ x :: l2 /\ x s = true /\ last l1 d s = false.
Proof.
  induction l as [|a l IH]; intros d s Hl Hd; [cbn [last] in Hl; congruence|].
  rewrite last_cons_def in Hl. destruct (a s) eqn:Ea.
  - exists [], a, l. split; [reflexivity|]. split; [exact Ea|exact Hd].
  - destruct (IH a s Hl Ea) as [l1 [x [l2 [H1 [H2 H3]]]]].
    exists (a :: l1), x, l2. split; [rewrite H1; reflexivity|]. split; [exact H2|].
    rewrite last_cons_def. exact H3.
Qed.

Lemma nil_or_not {A} (l : list A) : l = [] \/ l <> [].
Proof. destruct l; [left; reflexivity|right; discriminate]. Qed.

Lemma nonempty_cons {A} (l : list A) : l <> [] -> exists a l', l = a :: l'.
Proof. destruct l as [|a l']; [congruence|]. intros _. exists a, l'. reflexivity. Qed.

(* the extended controllable predecessor of a lifted set, read back *)
Lemma cpre_unlift nc nx ny M (E S : bdd) moore plus_one (T : bdd) v :
  cpre_spec nx (ny * M) moore plus_one (lift nc nx ny M E) (lift nc nx ny M S)
    (lift nc nx ny M T) v = true ->
  0 < M ->
  cpre_spec nx ny moore plus_one E S T (bv M v) = true.
Proof.
  intros Hc HM. revert Hc. unfold cpre_spec.
  assert (Hphi : forall x' y', phi plus_one (lift nc nx ny M E) (lift nc nx ny M S)
                                 (lift nc nx ny M T) v x' y' =
                               phi plus_one E S T (bv M v) x' (y' / M)).
  { intros x' y'. unfold phi, lift, bv. cbn [vc vx vy vxp vyp]. reflexivity. }
  assert (Hin : forall y', In y' (seq 0 (ny * M)) -> In (y' / M) (seq 0 ny)).
  { intros y' Hy. apply in_seq in Hy. apply in_seq. split; [lia|]. cbn [Nat.add].
    apply Nat.div_lt_upper_bound; lia. }
  destruct moore.
  - intros Hex. apply existsb_exists in Hex. destruct Hex as [y' [Hy Hall]].
    apply existsb_exists. exists (y' / M). split; [apply Hin, Hy|].
    rewrite forallb_forall in *. intros x' Hx'. rewrite <- Hphi. apply Hall, Hx'.
  - rewrite !forallb_forall. intros Hall x' Hx'. specialize (Hall x' Hx').
    apply existsb_exists in Hall. destruct Hall as [y' [Hy Hp]].
    apply existsb_exists. exists (y' / M). split; [apply Hin, Hy|]. rewrite <- Hphi. exact Hp.
Qed.

Section NB3.
Variables nc nx ny H G : nat.
Variables E S : bdd.
Variables holds goals : list bdd.
Variables moore plus_one : bool.
Hypothesis Sh : Forall spred holds.
Hypothesis Sg : Forall spred goals.
Hypothesis HnG : length goals <= G.
Hypothesis HnH : length holds < H.

Local Notation M := (H * G).
Local Notation L := (lift nc nx ny M).
Local Notation nyE := (ny * M).
Local Notation EL := (L E).
Local Notation SL := (L S).
Local Notation band := (Arena.band nc nx nyE).
Local Notation bor := (Arena.bor nc nx nyE).
Local Notation bnot := (Arena.bnot nc nx nyE).
Local Notation ca := (Gr1Gen.controllable_action nc nx nyE EL SL moore plus_one 0).
Local Notation step := (FixpointGen.step nc nx nyE moore plus_one 0).
Local Notation cp := (cpre_spec nx ny moore plus_one E S).
Local Notation ev := (StreettNB2.ev M).
Local Notation none := (length holds).
Local Notation n := (length goals).
Local Notation rg := (rg H G).
Local Notation rh := (rh H G).
Local Notation rgp := (rgp H G).
Local Notation rhp := (rhp H G).
Local Notation mp := (mp nc nx ny H G).

(* the state and the memory we look at *)
Variables c x yb h j : nat.
Hypothesis Hc : c < nc.
Hypothesis Hx : x < nx.
Hypothesis Hyb : yb < ny.
Hypothesis Hj : j < n.
Hypothesis Hh : h <= none.

Definition mem (h j : nat) : nat := h * G + j.
Local Notation s0 := (sv c x yb).
Local Notation m0 := (mem h j).

Lemma HG : 0 < G. Proof. lia. Qed.
Lemma HH : 0 < H. Proof. lia. Qed.
Lemma HM : 0 < M. Proof. pose proof HG. pose proof HH. nia. Qed.

Lemma mem_lt h' j' : h' < H -> j' < G -> mem h' j' < M.
Proof. unfold mem. intros. nia. Qed.
Lemma mem_div h' j' : j' < G -> mem h' j' / G = h'.
Proof.
  intros Hj'. unfold mem. rewrite Nat.div_add_l by lia. rewrite Nat.div_small by lia. lia.
Qed.
Lemma mem_mod h' j' : j' < G -> mem h' j' mod G = j'.
Proof.
  intros Hj'. unfold mem. rewrite Nat.add_comm, Nat.mod_add by lia. apply Nat.mod_small, Hj'.
Qed.
Lemma m0_lt : m0 < M.
Proof. apply mem_lt; lia. Qed.

Lemma s0_inr : Kleene.inr nc nx ny s0.
Proof.
  unfold Kleene.inr, in_range, sv. cbn [vc vx vy vxp vyp].
  repeat rewrite andb_true_iff. repeat rewrite Nat.ltb_lt. lia.
Qed.

Section At.
Variables x' yb' h' j' : nat.
Hypothesis Hh' : h' < H.
Hypothesis Hj' : j' < G.
Local Notation v := (ev c x yb m0 x' yb' (mem h' j')).

Lemma rh_at : rh v = h.
Proof.
  unfold TransducerModel.rh. change (vy v mod M) with (cnt M v).
  rewrite (cnt_ev M HM) by apply m0_lt. apply mem_div. lia.
Qed.
Lemma rg_at : rg v = j.
Proof.
  unfold TransducerModel.rg. change (vy v mod M) with (cnt M v).
  rewrite (cnt_ev M HM) by apply m0_lt. apply mem_mod. lia.
Qed.
Lemma rhp_at : rhp v = h'.
Proof.
  unfold TransducerModel.rhp. change (vyp v mod M) with (cntp M v).
  rewrite (cntp_ev M HM) by (apply mem_lt; assumption). apply mem_div. exact Hj'.
Qed.
Lemma rgp_at : rgp v = j'.
Proof.
  unfold TransducerModel.rgp. change (vyp v mod M) with (cntp M v).
  rewrite (cntp_ev M HM) by (apply mem_lt; assumption). apply mem_mod. exact Hj'.
Qed.

Lemma bv_at : bv M v = mkV c x yb x' yb'.
Proof. apply (bv_ev M HM); [apply m0_lt|apply mem_lt; assumption]. Qed.

(* a lifted state predicate at any step from the state = its value at s0 *)
Lemma lift_at u : spred u -> L u v = u s0.
Proof. intros Hu. rewrite lift_spec, bv_at, Hu. reflexivity. Qed.

Lemma v_inr : x' < nx -> yb' < ny -> Kleene.inr nc nx nyE v.
Proof.
  intros Hx' Hyb'. apply ev_range; try assumption;
    [apply HM|apply m0_lt|apply mem_lt; assumption].
Qed.

Lemma step_at T : spred T -> x' < nx -> yb' < ny -> step EL SL (L T) v = cp T s0.
Proof.
  intros ST Hx' Hyb'. rewrite step_spec.
  destruct (cp T s0) eqn:Ec.
  - apply (cpre_lift nc nx ny M E S moore plus_one T v HM).
    rewrite bv_at. rewrite <- Ec. unfold cpre_spec, phi. reflexivity.
  - destruct (cpre_spec nx nyE moore plus_one EL SL (L T) v) eqn:Ee; [|reflexivity].
    apply (cpre_unlift nc nx ny M E S moore plus_one T v) in Ee; [|exact HM].
    rewrite bv_at in Ee. rewrite <- Ec, <- Ee. unfold cpre_spec, phi. reflexivity.
Qed.
End At.

Lemma lift_prime u x' yb' m' : m' < M ->
  L u (mkV c x' (yb' * M + m') x' (yb' * M + m')) = u (mkV c x' yb' x' yb').
Proof.
  intros Hm. rewrite lift_spec. unfold bv. cbn [vc vx vy vxp vyp].
  rewrite !Nat.div_add_l by lia. rewrite !Nat.div_small by lia.
  rewrite !Nat.add_0_r. reflexivity.
Qed.

(* ---- a step exists, per the mode's quantifier order -------------------------- *)
Definition NBm (m' : nat) (rho : bdd) : Prop :=
  if moore
  then exists yb', yb' < ny /\
         forall x', x' < nx -> rho (ev c x yb m0 x' yb' m') = true
  else forall x', x' < nx -> exists yb', yb' < ny /\
         rho (ev c x yb m0 x' yb' m') = true.

Lemma NBm_mono m' (r1 r2 : bdd) :
  (forall x' yb', x' < nx -> yb' < ny ->
     r1 (ev c x yb m0 x' yb' m') = true -> r2 (ev c x yb m0 x' yb' m') = true) ->
  NBm m' r1 -> NBm m' r2.
Proof.
  unfold NBm. intros Hi. destruct moore.
  - intros [yb' [H1 H3]]. exists yb'. split; auto.
  - intros H0 x' Hx'. destruct (H0 x' Hx') as [yb' [H1 H3]].
    exists yb'. split; auto.
Qed.

(* what a state of cpre T0 provides at the step (x', yb') with next memory m':
   every controllable action towards a target that contains (the lifted) T0,
   with any extra conjunct that holds at the steps reaching T0 *)
Definition oracle (T0 : bdd) (x' yb' m' : nat) : Prop :=
  forall (T : bdd) (e : option bdd),
    (forall x'', x'' < nx -> T0 (mkV c x'' yb' x'' yb') = true ->
       T (mkV c x'' (yb' * M + m') x'' (yb' * M + m')) = true /\
       match e with Some e => e (ev c x yb m0 x'' yb' m') = true | None => True end) ->
    ca T e (ev c x yb m0 x' yb' m') = true.

Lemma NB_core (T0 : bdd) (rho : bdd) m' :
  m' < M -> cp T0 s0 = true ->
  (forall x' yb', x' < nx -> yb' < ny -> oracle T0 x' yb' m' ->
     rho (ev c x yb m0 x' yb' m') = true) ->
  NBm m' rho.
Proof.
  intros Hm Hcp Hrho.
  assert (Hpsi : forall x' yb' T e,
            psi E S plus_one T0 None (mkV c x yb x' yb') = true ->
            (T0 (mkV c x' yb' x' yb') = true ->
               T (mkV c x' (yb' * M + m') x' (yb' * M + m')) = true /\
               match e with Some e => e (ev c x yb m0 x' yb' m') = true | None => True end) ->
            psi EL SL plus_one T e (ev c x yb m0 x' yb' m') = true).
  { intros x' yb' T e Hb HT. rewrite psi_unfold in *.
    rewrite !lift_spec, (bv_ev M HM) by (try apply m0_lt; exact Hm).
    cbn [vc vx vy vxp vyp StreettNB2.ev] in *. rewrite andb_true_r in Hb.
    revert Hb. apply psi_t_mono. intros H0.
    destruct (HT H0) as [H1 H2]. rewrite H1.
    destruct e as [e0|]; [exact H2|reflexivity]. }
  unfold NBm. revert Hcp. destruct moore eqn:Em; intros Hcp.
  - destruct (cpre_ca_moore nx ny E S plus_one T0 (sv c x yb) Hcp) as [yb' [Hyb' Hall]].
    exists yb'. split; [exact Hyb'|]. intros x' Hx'. apply (Hrho x' yb' Hx' Hyb').
    intros T e Hside.
    rewrite ca_is_spec. unfold ca_spec. rewrite Em. apply forallb_forall. intros x'' Hx''.
    apply in_seq in Hx''.
    change (setg Envp (ev c x yb m0 x' yb' m') x'') with (ev c x yb m0 x'' yb' m').
    apply Hpsi; [apply (Hall x''); lia|]. apply Hside. lia.
  - intros x' Hx'.
    destruct (cpre_ca_mealy nx ny E S plus_one T0 (sv c x yb) Hcp x' Hx') as [yb' [Hyb' Hb]].
    exists yb'. split; [exact Hyb'|]. apply (Hrho x' yb' Hx' Hyb').
    intros T e Hside.
    rewrite ca_is_spec. unfold ca_spec. rewrite Em. apply Hpsi; [exact Hb|]. apply Hside, Hx'.
Qed.

(* without strict causality, a controllable action towards the empty set
   means the environment's action is false at the step *)
Lemma ca_false_notE x' yb' m' :
  plus_one = false -> x' < nx -> m' < M ->
  ca bfalse None (ev c x yb m0 x' yb' m') = true ->
  EL (ev c x yb m0 x' yb' m') = false.
Proof.
  intros Ep Hx' Hm Hca. rewrite ca_is_spec in Hca. unfold ca_spec in Hca.
  assert (Hpsi : psi EL SL plus_one bfalse None (ev c x yb m0 x' yb' m') = true).
  { destruct moore; [|exact Hca]. rewrite forallb_forall in Hca.
    assert (Hin : In x' (seq 0 nx)) by (apply in_seq; lia).
    specialize (Hca x' Hin).
    change (setg Envp (ev c x yb m0 x' yb' m') x') with (ev c x yb m0 x' yb' m') in Hca.
    exact Hca. }
  unfold psi in Hpsi. rewrite Ep in Hpsi. cbn [bfalse andb] in Hpsi.
  rewrite andb_false_r, orb_false_r in Hpsi. apply negb_true_iff in Hpsi. exact Hpsi.
Qed.

(* ---- the mode-dependent wrapping of the action ------------------------------ *)
Lemma wrap_nb (u : bdd) m' :
  NBm m' (fun w => u w || (negb plus_one && negb (EL w))) ->
  NBm m' (wrap nc nx ny H G EL moore plus_one u).
Proof.
  unfold NBm, wrap. destruct plus_one eqn:Ep; cbn [negb andb].
  - destruct moore.
    + intros [yb' [Hyb' Hall]]. exists yb'. split; [exact Hyb'|]. intros x' Hx'.
      specialize (Hall x' Hx'). rewrite orb_false_r in Hall. exact Hall.
    + intros Hall x' Hx'. destruct (Hall x' Hx') as [yb' [Hyb' Hu]]. exists yb'.
      split; [exact Hyb'|]. rewrite orb_false_r in Hu. exact Hu.
  - destruct moore.
    + intros [yb' [Hyb' Hall]]. exists yb'. split; [exact Hyb'|]. intros x' Hx'.
      rewrite forall_spec. cbn [forall_raw dom]. apply forallb_forall.
      intros x'' Hx''. apply in_seq in Hx''.
      change (setg Envp (ev c x yb m0 x' yb' m') x'') with (ev c x yb m0 x'' yb' m').
      rewrite bor_spec, bnot_spec. apply Hall. lia.
    + intros Hall x' Hx'. destruct (Hall x' Hx') as [yb' [Hyb' Hu]]. exists yb'.
      split; [exact Hyb'|]. rewrite bor_spec, bnot_spec. exact Hu.
Qed.

(* ---- the round of the state's level ----------------------------------------- *)
Local Notation round := (bdd * list bdd * list (list (list bdd)))%type.
Local Notation rounds_ok := (rounds_ok nc nx ny E S holds goals moore plus_one).
Local Notation round_ok := (round_ok nc nx ny E S holds goals moore plus_one).
Local Notation hold_ok := (hold_ok nc nx ny E S goals moore plus_one).
Local Notation rounds_nb := (rounds_nb nc nx ny E S goals moore plus_one).
Local Notation round_nb := (round_nb nc nx ny E S goals moore plus_one).
Local Notation ci_nb := (ci_nb nc nx ny E S goals moore plus_one).
Local Notation chain := (chain nc nx ny E S moore plus_one).

Lemma find_round : forall zp zk yki xkijr,
  rounds_ok zp zk yki xkijr -> rounds_nb zp zk yki xkijr ->
  spred zp -> zp s0 = false -> last zk zp s0 = true ->
  exists (T1 : list round) z yi xijr (T2 : list round),
    combine (combine zk yki) xkijr = T1 ++ (z, yi, xijr) :: T2 /\
    z s0 = true /\ last (map tz T1) zp s0 = false /\ spred (last (map tz T1) zp) /\
    round_ok (last (map tz T1) zp) z yi xijr /\
    round_nb (last (map tz T1) zp) z yi xijr /\
    fidx zk s0 = length T1 /\ nth (length T1) yki [] = yi /\
    zk = map tz T1 ++ z :: map tz T2.
Proof.
  intros zp zk yki xkijr Hro.
  induction Hro as [zp|zp z zs yi yis xijr xs Hr Ho IH]; intros Hrn Szp Hzp Hl.
  - cbn [last] in Hl. congruence.
  - inversion Hrn as [|zp' z' zs' yi' yis' xijr' xs' Hrn1 Hrn2]; subst.
    destruct (z s0) eqn:Ez.
    + exists [], z, yi, xijr, (combine (combine zs yis) xs).
      cbn [combine app map last length nth].
      split; [reflexivity|]. split; [exact Ez|]. split; [exact Hzp|]. split; [exact Szp|].
      split; [exact Hr|]. split; [exact Hrn1|]. split; [|split; [reflexivity|]].
      * cbn [fidx]. unfold bdd in *. rewrite Ez. reflexivity.
      * f_equal. symmetry. apply (rounds_tz nc nx ny E S holds goals moore plus_one _ _ _ _ Ho).
    + rewrite last_cons_def in Hl.
      assert (Sz : spred z) by apply Hr.
      destruct (IH Hrn2 Sz eq_refl Hl)
        as [T1 [z1 [yi1 [xijr1 [T2 [H1 [H2 [H3 [H4 [H5 [H6 [H7 [H8 H9]]]]]]]]]]]]].
      exists ((z, yi, xijr) :: T1), z1, yi1, xijr1, T2.
      cbn [combine app map tz fst length nth]. rewrite !last_cons_def.
      split; [rewrite H1; reflexivity|]. split; [exact H2|]. split; [exact H3|].
      split; [exact H4|]. split; [exact H5|]. split; [exact H6|].
      split; [|split; [exact H8|rewrite H9; reflexivity]].
      cbn [fidx]. unfold bdd in *. rewrite Ez, H7. reflexivity.
Qed.

Lemma nth_error_combine_intro {A B} (a : list A) (b : list B) : forall k u w,
  nth_error a k = Some u -> nth_error b k = Some w -> nth_error (combine a b) k = Some (u, w).
Proof.
  revert b. induction a as [|a0 a IH]; intros [|b0 b] [|k] u w; cbn [combine nth_error];
    try discriminate.
  - intros Ha Hb. injection Ha as <-. injection Hb as <-. reflexivity.
  - apply IH.
Qed.

Variables (zk : list bdd) (yki : list (list bdd)) (xkijr : list (list (list (list bdd)))).
Local Notation rounds := (combine (combine zk yki) xkijr).
Local Notation holdsL := (map L holds).
Local Notation goalsL := (map L goals).
Local Notation zkL := (map L zk).
Local Notation roundsL := (combine (combine (map L zk) (map (map L) yki))
                             (map (map (map (map L))) xkijr)).
Local Notation LT := (LT nc nx ny H G).
Local Notation R1 := (R1 nc nx ny H G EL SL holdsL moore plus_one).
Local Notation Rn := (Rn nc nx ny H G).
Local Notation t1 := (t1 nc nx ny H G EL SL holdsL moore plus_one).
Local Notation t2 := (t2 nc nx ny H G EL SL holdsL moore plus_one).
Local Notation t3 := (t3 nc nx ny H G EL SL holdsL goalsL moore plus_one).
Local Notation t4 := (t4 nc nx ny H G EL SL holdsL goalsL moore plus_one).
Local Notation rim := (rim nc nx ny H G EL SL moore plus_one).
Local Notation BODY := (body nc nx ny H G EL SL holdsL goalsL moore plus_one zkL roundsL).
Local Notation A := (rabin_action nc nx ny H G EL SL holdsL goalsL moore plus_one
                       zkL (map (map L) yki) (map (map (map (map L))) xkijr)).

Definition NB (rho : bdd) : Prop :=
  exists h' j', h' < H /\ j' < G /\ NBm (mem h' j') rho.

Lemma range_at x' yb' h' j' : h' < H -> j' < G ->
  in_range_mem nc nx ny H G holdsL goalsL (ev c x yb m0 x' yb' (mem h' j')) = true.
Proof.
  intros Hh' Hj'. unfold in_range_mem, TransducerModel.mp.
  rewrite memo_id, (rh_at x' yb' h' j' Hh' Hj'), (rg_at x' yb' h' j' Hh' Hj'), !map_length.
  apply andb_true_iff. split; apply Nat.leb_le; lia.
Qed.

Section Round.
Variables (T1 : list round) (z : bdd) (yi : list bdd) (xijr : list (list (list bdd)))
          (T2 : list round).
Hypothesis Hsplit : rounds = T1 ++ (z, yi, xijr) :: T2.
Local Notation zq := (last (map tz T1) bfalse).
Hypothesis Hz : z s0 = true.
Hypothesis Hzq : zq s0 = false.
Hypothesis Szq : spred zq.
Hypothesis Hrok : round_ok zq z yi xijr.
Hypothesis Hrnb : round_nb zq z yi xijr.
Hypothesis Hzk : zk = map tz T1 ++ z :: map tz T2.

Lemma Sz : spred z.
Proof. apply Hrok. Qed.

Lemma roundsL_split :
  roundsL = map LT T1 ++ LT (z, yi, xijr) :: map LT T2.
Proof.
  rewrite (rounds_lift nc nx ny H G zk yki xkijr), Hsplit, map_app. reflexivity.
Qed.

Lemma rim_at x' yb' h' j' : h' < H -> j' < G -> x' < nx -> yb' < ny ->
  cp zq s0 = false ->
  rim (L zq) (L z) (ev c x yb m0 x' yb' (mem h' j')) = true.
Proof.
  intros Hh' Hj' Hx' Hyb' Hcp. unfold RabinNB1.rim.
  rewrite !band_spec, !bnot_spec.
  rewrite (lift_at x' yb' h' j' Hh' Hj' z Sz), (lift_at x' yb' h' j' Hh' Hj' zq Szq).
  rewrite (step_at x' yb' h' j' Hh' Hj' zq Szq Hx' Hyb').
  rewrite Hz, Hzq, Hcp. reflexivity.
Qed.

Lemma Rn_here tn w :
  tn (L zq) (LT (z, yi, xijr)) w = true -> Rn tn roundsL w = true.
Proof.
  intros Ht. apply (Rn_member nc nx ny H G tn roundsL (map LT T1) (LT (z, yi, xijr)) (map LT T2) w).
  - apply roundsL_split.
  - rewrite (tz_LT nc nx ny H G). exact Ht.
Qed.

Lemma yi_len : length yi = none.
Proof. apply Hrok. Qed.
Lemma xijr_len : length xijr = none.
Proof. apply Hrok. Qed.

(* the iterates of persistence index i of this round *)
Lemma at_index i : i < none ->
  exists y xjr P, nth_error yi i = Some y /\ nth_error xijr i = Some xjr /\
    nth_error holds i = Some P /\ hold_ok zq z P y xjr /\ ci_nb y xjr.
Proof.
  intros Hi.
  destruct (nth_error yi i) as [y|] eqn:Ey; [|apply nth_error_None in Ey; rewrite yi_len in Ey; lia].
  destruct (nth_error xijr i) as [xjr|] eqn:Ex;
    [|apply nth_error_None in Ex; rewrite xijr_len in Ex; lia].
  destruct (nth_error holds i) as [P|] eqn:EP; [|apply nth_error_None in EP; lia].
  exists y, xjr, P. split; [reflexivity|]. split; [reflexivity|]. split; [reflexivity|]. split.
  - destruct Hrok as [_ [_ [_ [_ Hall]]]]. apply (Hall i y xjr P Ey Ex EP).
  - destruct Hrnb as [_ Hall]. apply (Hall i y xjr Ey Ex).
Qed.

(* --- A.i: the previous basin can be forced (at level 0: the EMPTY set, i.e.
       the state is an environment dead end): rho_1, whatever the memory --- *)
Lemma case_down : cp zq s0 = true -> NB BODY.
Proof.
  intros Hcp. exists none, j. split; [exact HnH|]. split; [lia|].
  assert (Hj' : j < G) by lia.
  apply (NB_core zq _ (mem none j) (mem_lt none j HnH Hj') Hcp).
  intros x' yb' Hx' Hyb' Hor. unfold body.
  rewrite band_spec, (range_at x' yb' none j HnH Hj'), andb_true_r, !bor_spec.
  apply orb_true_iff. left. apply orb_true_iff. left. apply orb_true_iff. left.
  apply (R1_member nc nx ny H G EL SL holdsL moore plus_one zkL
           (map L (map tz T1)) (L z) (map L (map tz T2))).
  - rewrite Hzk, map_app. reflexivity.
  - rewrite (last_map_lift nc nx ny M). unfold RabinNB1.t1.
    rewrite !band_spec, bnot_spec.
    rewrite (lift_at x' yb' none j HnH Hj' z Sz), (lift_at x' yb' none j HnH Hj' _ Szq).
    rewrite Hz, Hzq. cbn [negb andb].
    apply andb_true_iff. split.
    + apply Hor. intros x'' Hx'' Hq. split; [|exact I].
      rewrite (lift_prime _ x'' yb' _ (mem_lt none j HnH Hj')). exact Hq.
    + unfold TransducerModel.mp. rewrite memo_id.
      rewrite (rgp_at x' yb' none j HnH Hj'), (rg_at x' yb' none j HnH Hj'),
              (rhp_at x' yb' none j HnH Hj'), map_length, !Nat.eqb_refl. reflexivity.
Qed.

(* The next two lemmas are how the dead ends were served BEFORE the repair of
   rho_1 (they remain true; [rabin_nb_ro] no longer needs them). *)
(* --- dead end, no strict causality: the escape "\/ ~ env_action" --- *)
Lemma case_deadend_escape : plus_one = false -> cp bfalse s0 = true ->
  NB (fun w => BODY w || (negb plus_one && negb (EL w))).
Proof.
  intros Ep Hcp. exists 0, 0. split; [apply HH|]. split; [apply HG|].
  apply (NB_core bfalse _ (mem 0 0) (mem_lt 0 0 HH HG) Hcp).
  intros x' yb' Hx' Hyb' Hor. rewrite Ep. cbn [negb andb].
  rewrite (ca_false_notE x' yb' (mem 0 0) Ep Hx' (mem_lt 0 0 HH HG)); [apply orb_true_r|].
  apply Hor. intros x'' _ Hf. discriminate Hf.
Qed.

(* --- dead end, a persistence index is held: the steps with ~ env_action
       pass through rho_4 --- *)
Lemma case_deadend_hold : h < none -> cp bfalse s0 = true -> NB BODY.
Proof.
  intros Hlt Hcp. assert (HhH : h < H) by lia. assert (Hj' : j < G) by lia.
  exists h, j. split; [exact HhH|]. split; [exact Hj'|].
  destruct (at_index h Hlt) as [y [xjr [P [Ey _]]]].
  apply (NB_core bfalse _ (mem h j) (mem_lt h j HhH Hj') Hcp).
  intros x' yb' Hx' Hyb' Hor. unfold body.
  rewrite band_spec, (range_at x' yb' h j HhH Hj'), andb_true_r, !bor_spec.
  apply orb_true_iff. right. apply Rn_here. unfold RabinNB1.t4, RabinLive1.LT.
  cbn [fst snd]. rewrite band_spec. apply andb_true_iff. split.
  - apply Hor. intros x'' _ Hf. discriminate Hf.
  - apply (vsel_member nc nx ny H G EL SL moore plus_one _ (map L yi) h (L y)).
    + apply (map_nth_error L _ _ Ey).
    + rewrite (rh_at x' yb' h j HhH Hj'). apply Nat.eqb_refl.
    + apply Hor. intros x'' _ Hf. discriminate Hf.
Qed.

(* --- B1: no persistence index yet: rho_2 picks one --- *)
Lemma case_pick : h = none -> cp zq s0 = false -> NB BODY.
Proof.
  intros Hn Hcp. assert (Hj' : j < G) by lia.
  destruct Hrnb as [Hcov _]. destruct (Hcov s0 Hz) as [Hf|[i [y [Ey Hys]]]]; [congruence|].
  assert (Hi : i < none).
  { rewrite <- yi_len. apply nth_error_Some. congruence. }
  destruct (at_index i Hi) as [y' [xjr [P [Ey' [Ex [EP [Hok Hnb]]]]]]].
  rewrite Ey in Ey'. injection Ey' as <-.
  assert (HiH : i < H) by lia.
  assert (Hcy : cp y s0 = true).
  { destruct Hnb as [Hyc _]. apply (Hyc ltac:(lia) s0 s0_inr Hys). }
  exists i, j. split; [exact HiH|]. split; [exact Hj'|].
  apply (NB_core y _ (mem i j) (mem_lt i j HiH Hj') Hcy).
  intros x' yb' Hx' Hyb' Hor. unfold body.
  rewrite band_spec, (range_at x' yb' i j HiH Hj'), andb_true_r, !bor_spec.
  apply orb_true_iff. left. apply orb_true_iff. left. apply orb_true_iff. right.
  apply Rn_here. unfold RabinNB1.t2, RabinLive1.LT. cbn [fst snd tz].
  rewrite !band_spec. rewrite (rim_at x' yb' i j HiH Hj' Hx' Hyb' Hcp). cbn [andb].
  apply andb_true_iff. split.
  - unfold TransducerModel.mp. rewrite memo_id.
    rewrite (rgp_at x' yb' i j HiH Hj'), (rg_at x' yb' i j HiH Hj'),
            (rh_at x' yb' i j HiH Hj'), map_length, Hn, !Nat.eqb_refl. reflexivity.
  - apply (vsel_member nc nx ny H G EL SL moore plus_one _ (map L yi) i (L y)).
    + apply (map_nth_error L _ _ Ey).
    + rewrite (rhp_at x' yb' i j HiH Hj'). apply Nat.eqb_refl.
    + apply Hor. intros x'' Hx'' Hq. split; [|exact I].
      rewrite (lift_prime _ x'' yb' _ (mem_lt i j HiH Hj')). exact Hq.
Qed.

(* --- B2: persistence index h held, the state inside y_{k,h} --- *)
Section Held.
Variables (y : bdd) (xjr : list (list bdd)) (P : bdd) (xr : list bdd) (R : bdd).
Hypothesis Hlt : h < none.
Hypothesis Ey : nth_error yi h = Some y.
Hypothesis Ex : nth_error xijr h = Some xjr.
Hypothesis Hok : hold_ok zq z P y xjr.
Hypothesis Hnb : ci_nb y xjr.
Hypothesis Exr : nth_error xjr j = Some xr.
Hypothesis ER : nth_error goals j = Some R.
Hypothesis Hys : y s0 = true.
Hypothesis Hcp : cp zq s0 = false.

Lemma HhH : h < H. Proof. lia. Qed.
Lemma HjG : j < G. Proof. lia. Qed.
Lemma SR : spred R.
Proof. rewrite Forall_forall in Sg. apply Sg. apply (nth_error_In _ _ ER). Qed.

(* the pursued goal holds: rho_4 advances the goal index *)
Lemma case_adv : R s0 = true -> NB BODY.
Proof.
  intros HR. pose proof HhH as HhH. pose proof HjG as Hj'.
  set (jp := (j + 1) mod n).
  assert (Hjp : jp < G).
  { assert (jp < n) by (apply Nat.mod_upper_bound; lia). lia. }
  assert (Hcy : cp y s0 = true).
  { destruct Hnb as [Hyc _]. apply (Hyc ltac:(lia) s0 s0_inr Hys). }
  exists h, jp. split; [exact HhH|]. split; [exact Hjp|].
  apply (NB_core y _ (mem h jp) (mem_lt h jp HhH Hjp) Hcy).
  intros x' yb' Hx' Hyb' Hor. unfold body.
  rewrite band_spec, (range_at x' yb' h jp HhH Hjp), andb_true_r, !bor_spec.
  apply orb_true_iff. right. apply Rn_here. unfold RabinNB1.t4, RabinLive1.LT.
  cbn [fst snd tz]. rewrite band_spec. apply andb_true_iff. split.
  - apply Hor. intros x'' Hx'' _. split; [reflexivity|].
    rewrite !band_spec. rewrite (rim_at x'' yb' h jp HhH Hjp Hx'' Hyb' Hcp), andb_true_r.
    apply andb_true_iff. split.
    + apply (adv_member nc nx ny H G goalsL j (L R)).
      * apply (map_nth_error L _ _ ER).
      * apply (rg_at x'' yb' h jp HhH Hjp).
      * rewrite (rgp_at x'' yb' h jp HhH Hjp), map_length. reflexivity.
      * rewrite (lift_at x'' yb' h jp HhH Hjp R SR). exact HR.
    + unfold TransducerModel.mp. rewrite memo_id.
      rewrite (rh_at x'' yb' h jp HhH Hjp), (rhp_at x'' yb' h jp HhH Hjp), map_length.
      rewrite Nat.eqb_refl, andb_true_r. apply negb_true_iff. apply Nat.eqb_neq. lia.
  - apply (vsel_member nc nx ny H G EL SL moore plus_one _ (map L yi) h (L y)).
    + apply (map_nth_error L _ _ Ey).
    + rewrite (rh_at x' yb' h jp HhH Hjp). apply Nat.eqb_refl.
    + apply Hor. intros x'' Hx'' Hq. split; [|exact I].
      rewrite (lift_prime _ x'' yb' _ (mem_lt h jp HhH Hjp)). exact Hq.
Qed.

(* the pursued goal does not hold: rho_3 descends in its attractor *)
Lemma case_desc : R s0 = false -> NB BODY.
Proof.
  intros HR. pose proof HhH as HhH. pose proof HjG as Hj'.
  destruct Hnb as [_ Hch]. destruct (Hch j xr R Exr ER) as [Hyl Hchain].
  pose proof (Hyl s0 s0_inr Hys) as Hlast.
  destruct (first_in xr bfalse s0 Hlast eq_refl) as [l1 [xx [l2 [Hxr [Hxx Hl1]]]]].
  rewrite Hxr in Hchain.
  destruct (chain_split nc nx ny E S moore plus_one R l1 bfalse xx l2 Hchain s0 s0_inr Hxx)
    as [Hf|[Hcx|Hf]]; [congruence| |congruence].
  destruct l1 as [|x0 l1'].
  { exfalso. cbn [last] in Hcx.
    assert (Hle : Kleene.le nc nx ny bfalse zq) by (intros w _ Hw; discriminate Hw).
    pose proof (cpre_spec_mono nc nx ny moore plus_one E S bfalse zq Hle s0 s0_inr Hcx).
    congruence. }
  set (xb := last (x0 :: l1') bfalse) in *.
  destruct Hok as [_ [_ [_ [_ Hxs]]]].
  assert (Hxrin : In xr xjr) by apply (nth_error_In _ _ Exr).
  destruct (Hxs xr Hxrin) as [_ Hxall].
  assert (Sxb : spred xb).
  { assert (Hin : In xb xr).
    { rewrite Hxr. apply in_or_app. left. unfold xb.
      destruct (exists_last (l := x0 :: l1')) as [l' [e He]]; [discriminate|].
      rewrite He, last_last. apply in_or_app. right. left. reflexivity. }
    apply (Hxall xb Hin). }
  assert (Sxx : spred xx).
  { assert (Hin : In xx xr) by (rewrite Hxr; apply in_elt). apply (Hxall xx Hin). }
  exists h, j. split; [exact HhH|]. split; [exact Hj'|].
  apply (NB_core xb _ (mem h j) (mem_lt h j HhH Hj') Hcx).
  intros x' yb' Hx' Hyb' Hor. unfold body.
  rewrite band_spec, (range_at x' yb' h j HhH Hj'), andb_true_r, !bor_spec.
  apply orb_true_iff. left. apply orb_true_iff. right.
  apply Rn_here. unfold RabinNB1.t3, RabinLive1.LT. cbn [fst snd tz].
  rewrite !band_spec. rewrite (rim_at x' yb' h j HhH Hj' Hx' Hyb' Hcp). cbn [andb].
  apply andb_true_iff. split.
  - unfold TransducerModel.mp. rewrite memo_id.
    rewrite (rgp_at x' yb' h j HhH Hj'), (rg_at x' yb' h j HhH Hj'),
            (rh_at x' yb' h j HhH Hj'), (rhp_at x' yb' h j HhH Hj'), map_length.
    rewrite !Nat.eqb_refl, andb_true_r. cbn [andb]. apply negb_true_iff, Nat.eqb_neq. lia.
  - apply (t3_sel_member nc nx ny H G EL SL goalsL moore plus_one
             (map (map (map L)) xijr) h (map (map L) xjr) j (map L xr) (L R)).
    + apply (map_nth_error (map (map L)) _ _ Ex).
    + apply nth_error_combine_intro;
        [apply (map_nth_error (map L) _ _ Exr)|apply (map_nth_error L _ _ ER)].
    + unfold t3term. cbn [fst snd]. rewrite !band_spec, bnot_spec.
      rewrite (lift_at x' yb' h j HhH Hj' R SR), HR. cbn [negb]. rewrite andb_true_r.
      apply andb_true_iff. split.
      * apply (px_member nc nx ny H G EL SL moore plus_one (map L xr)
                 (L x0) (map L l1') (L xx) (map L l2)).
        -- rewrite Hxr, map_app. reflexivity.
        -- change (L x0 :: map L l1') with (map L (x0 :: l1')).
           rewrite (last_map_lift nc nx ny M). fold xb.
           apply Hor. intros x'' Hx'' Hq. split; [|exact I].
           rewrite (lift_prime _ x'' yb' _ (mem_lt h j HhH Hj')). exact Hq.
        -- change (L x0 :: map L l1') with (map L (x0 :: l1')).
           rewrite (last_map_lift nc nx ny M). fold xb.
           rewrite (lift_at x' yb' h j HhH Hj' xb Sxb). exact Hl1.
        -- rewrite (lift_at x' yb' h j HhH Hj' xx Sxx). exact Hxx.
      * unfold TransducerModel.mp. rewrite memo_id.
        rewrite (rg_at x' yb' h j HhH Hj'), (rh_at x' yb' h j HhH Hj'), !Nat.eqb_refl.
        reflexivity.
Qed.
End Held.

End Round.

(* ---- the class in which the model blocks (known finding F12) ----------------- *)
(* F3 (repaired; the unrepaired rho_1 blocked here, GenProofs/RabinUnrepaired.v):
   no persistence index, strict causality, environment dead end *)
Definition class_F3 : Prop :=
  h = none /\ plus_one = true /\ cp bfalse s0 = true.
(* F12: a persistence index i is held but the state is outside y_{k,i} of its
   own level k (the first z_k that contains it) *)
Definition class_F12 : Prop :=
  h < none /\ nth h (nth (fidx zk s0) yki []) bfalse s0 = false.

Hypothesis Hro : rounds_ok bfalse zk yki xkijr.
Hypothesis Hrn : rounds_nb bfalse zk yki xkijr.
Hypothesis Hwin : last zk bfalse s0 = true.

Lemma NB_wrap : NB BODY -> NB (wrap nc nx ny H G EL moore plus_one BODY).
Proof.
  intros [h' [j' [Hh' [Hj' Hn]]]]. exists h', j'. split; [exact Hh'|]. split; [exact Hj'|].
  apply wrap_nb. revert Hn. apply NBm_mono. intros x' yb' _ _ Hb. rewrite Hb. reflexivity.
Qed.

(* the level of the state and its previous basin *)
Lemma dead_end_forces_level (T1 : list round) :
  cp bfalse s0 = true -> cp (last (map tz T1) bfalse) s0 = true.
Proof.
  intros Hcp.
  assert (Hle : Kleene.le nc nx ny bfalse (last (map tz T1) bfalse))
    by (intros w _ Hw; discriminate Hw).
  apply (cpre_spec_mono nc nx ny moore plus_one E S bfalse _ Hle s0 s0_inr Hcp).
Qed.

(* at an environment dead end (the component can make the environment's action
   false while keeping its own) the repaired rho_1 offers a step, in every
   mode and whatever the memory (in range) *)
Theorem rabin_dead_end_step : cp bfalse s0 = true -> NB A.
Proof.
  intros Hcp.
  assert (Sf : spred bfalse) by (intros w; reflexivity).
  destruct (find_round bfalse zk yki xkijr Hro Hrn Sf eq_refl Hwin)
    as [T1 [z [yi [xijr [T2 [Hs [Hz [Hzq [Szq [Hrok [Hrnb [Hfi [Hnth Hzk]]]]]]]]]]]]].
  rewrite rabin_action_alt. apply NB_wrap.
  apply (case_down T1 z yi xijr T2 Hz Hzq Szq Hrok Hzk (dead_end_forces_level T1 Hcp)).
Qed.

Theorem rabin_nb_ro : ~ class_F12 -> NB A.
Proof.
  intros N12.
  assert (Sf : spred bfalse) by (intros w; reflexivity).
  destruct (find_round bfalse zk yki xkijr Hro Hrn Sf eq_refl Hwin)
    as [T1 [z [yi [xijr [T2 [Hs [Hz [Hzq [Szq [Hrok [Hrnb [Hfi [Hnth Hzk]]]]]]]]]]]]].
  rewrite rabin_action_alt.
  destruct (cp (last (map tz T1) bfalse) s0) eqn:Ecp.
  - (* the previous basin (at level 0: the empty set - an environment dead
       end) can be forced: rho_1 *)
    apply NB_wrap. apply (case_down T1 z yi xijr T2 Hz Hzq Szq Hrok Hzk Ecp).
  - (* at the rim of the round *)
    apply NB_wrap. destruct (Nat.eq_dec h none) as [Hn|Hn].
    + apply (case_pick T1 z yi xijr T2 Hs Hz Hzq Szq Hrok Hrnb Hn Ecp).
    + assert (Hlt : h < none) by lia.
      destruct (at_index T1 z yi xijr Hrok Hrnb h Hlt)
        as [y [xjr [P [Ey [Ex [EP [Hok Hnb]]]]]]].
      assert (Hys : y s0 = true).
      { destruct (nth h (nth (fidx zk s0) yki []) bfalse s0) eqn:Eq.
        - rewrite Hfi, Hnth in Eq. rewrite (nth_error_nth yi h bfalse Ey) in Eq. exact Eq.
        - exfalso. apply N12. split; [exact Hlt|exact Eq]. }
      assert (Hlx : length xjr = n) by apply Hok.
      destruct (nth_error xjr j) as [xr|] eqn:Exr;
        [|apply nth_error_None in Exr; lia].
      destruct (nth_error goals j) as [R|] eqn:ER;
        [|apply nth_error_None in ER; lia].
      destruct (R s0) eqn:ER0.
      * apply (case_adv T1 z yi xijr T2 Hs Hz Hzq Szq Hrok y xjr R Hlt Ey Hnb ER Hys Ecp ER0).
      * apply (case_desc T1 z yi xijr T2 Hs Hz Hzq Szq Hrok y xjr P xr R Hlt Ex Hok Hnb Exr ER
                 Hys Ecp ER0).
Qed.

End NB3.

(* the environment dead ends of the base game are those of the extended arena
   (where the closed-loop search looks for them) *)
Lemma cpre_lift_eq nc nx ny M (E S : bdd) moore plus_one (T : bdd) v :
  0 < M ->
  cpre_spec nx (ny * M) moore plus_one (lift nc nx ny M E) (lift nc nx ny M S)
    (lift nc nx ny M T) v =
  cpre_spec nx ny moore plus_one E S T (bv M v).
Proof.
  intros HM0.
  destruct (cpre_spec nx ny moore plus_one E S T (bv M v)) eqn:Ec.
  - apply (cpre_lift nc nx ny M E S moore plus_one T v HM0 Ec).
  - destruct (cpre_spec nx (ny * M) moore plus_one (lift nc nx ny M E) (lift nc nx ny M S)
                (lift nc nx ny M T) v) eqn:Ee; [|reflexivity].
    apply (cpre_unlift nc nx ny M E S moore plus_one T v) in Ee; [|exact HM0]. congruence.
Qed.

(* ---- the generated solver --------------------------------------------------- *)
Section Solver.
Variables nc nx ny : nat.
Variables E S : bdd.
Variables holds goals : list bdd.
Variables moore plus_one : bool.
Variables H G fuel : nat.
Hypothesis Hfuel : NV nc nx ny <= fuel.
Hypothesis Sh : Forall spred holds.
Hypothesis Sg : Forall spred goals.
Hypothesis HnG : length goals <= G.
Hypothesis HnH : length holds < H.

Local Notation M := (H * G).
Local Notation L := (lift nc nx ny M).
Local Notation solve := (Gr1Gen.solve_rabin_game nc nx ny E S holds goals moore plus_one).
Local Notation zkf := (fst (fst (solve fuel))).
Local Notation ykif := (snd (fst (solve fuel))).
Local Notation xkijrf := (snd (solve fuel)).
Local Notation A := (rabin_action nc nx ny H G (L E) (L S) (map L holds) (map L goals)
                       moore plus_one (map L zkf) (map (map L) ykif)
                       (map (map (map (map L))) xkijrf)).

(* at a winning valuation, with the memory in range, the synthesized action
   allows a step unless the persistence index held is stale (class F12) *)
Theorem rabin_impl_blocks_only_stale_hold c x yb h j :
  c < nc -> x < nx -> yb < ny -> j < length goals -> h <= length holds ->
  last zkf bfalse (sv c x yb) = true ->
  ~ class_F12 holds c x yb h zkf ykif ->
  NB nx ny H G moore c x yb h j A.
Proof.
  intros Hc Hx Hyb Hj Hh Hwin N12.
  apply (rabin_nb_ro nc nx ny H G E S holds goals moore plus_one Sg HnG HnH
           c x yb h j Hc Hx Hyb Hj Hh zkf ykif xkijrf); try assumption.
  - apply (solve_rounds_ok nc nx ny E S holds goals moore plus_one fuel Hfuel Sh Sg).
  - apply (solve_rounds_nb nc nx ny E S holds goals moore plus_one fuel Hfuel Sh Sg).
Qed.

(* the statement as it was before the repair of rho_1 (with the hypothesis
   "not in class F3", now superfluous); kept under its name *)
Theorem rabin_impl_blocks_only_known c x yb h j :
  c < nc -> x < nx -> yb < ny -> j < length goals -> h <= length holds ->
  last zkf bfalse (sv c x yb) = true ->
  ~ class_F3 nx ny E S holds moore plus_one c x yb h ->
  ~ class_F12 holds c x yb h zkf ykif ->
  NB nx ny H G moore c x yb h j A.
Proof.
  intros Hc Hx Hyb Hj Hh Hwin _ N12.
  exact (rabin_impl_blocks_only_stale_hold c x yb h j Hc Hx Hyb Hj Hh Hwin N12).
Qed.

(* at a winning environment dead end the synthesized action allows a step,
   whatever the memory in range (the repair of finding F3) *)
Theorem rabin_impl_dead_end_step c x yb h j :
  c < nc -> x < nx -> yb < ny -> j < length goals -> h <= length holds ->
  last zkf bfalse (sv c x yb) = true ->
  cpre_spec nx ny moore plus_one E S bfalse (sv c x yb) = true ->
  NB nx ny H G moore c x yb h j A.
Proof.
  intros Hc Hx Hyb Hj Hh Hwin Hcp.
  apply (rabin_dead_end_step nc nx ny H G E S holds goals moore plus_one HnG HnH
           c x yb h j Hc Hx Hyb Hj Hh zkf ykif xkijrf); try assumption.
  - apply (solve_rounds_ok nc nx ny E S holds goals moore plus_one fuel Hfuel Sh Sg).
  - apply (solve_rounds_nb nc nx ny E S holds goals moore plus_one fuel Hfuel Sh Sg).
Qed.
End Solver.
