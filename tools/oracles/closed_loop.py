"""Explicit closed-loop analysis of a synthesized implementation (search
oracle for C02/C05; not evidence of correctness, only produces replays).

Inputs are truth tables over the extended arena of the implementation:
  action[s][j]  the synthesized action (s = state index, j = x'*nyE + y')
  E[s][j], S[s][j]  the specified actions, lifted
  init[s]       admitted initial states (init[impl] and EnvInit)
  P, R          lists of state tables (persistence / recurrence), lifted
"""
import sys

sys.setrecursionlimit(100000)


class Loop:
    def __init__(self, nc, nx, nyE, action, E, S, init, P, R, moore,
                 plus_one, kind):
        self.nc, self.nx, self.ny = nc, nx, nyE
        self.action, self.E, self.S = action, E, S
        self.init, self.P, self.R = init, P, R
        self.moore, self.plus_one, self.kind = moore, plus_one, kind
        self.ns = nc * nx * nyE

    def state(self, s):
        y = s % self.ny
        x = (s // self.ny) % self.nx
        c = s // (self.ny * self.nx)
        return c, x, y

    def succ(self, s):
        """successors under steps allowed by the implementation in which the
        environment keeps its action"""
        c, _, _ = self.state(s)
        out = []
        for xp in range(self.nx):
            for yp in range(self.ny):
                j = xp * self.ny + yp
                if self.action[s][j] and self.E[s][j]:
                    out.append(((c * self.nx + xp) * self.ny + yp, j))
        return out

    def reachable(self):
        seen = {s for s in range(self.ns) if self.init[s]}
        parent = {s: None for s in seen}
        todo = list(seen)
        while todo:
            s = todo.pop()
            for t, j in self.succ(s):
                if t not in seen:
                    seen.add(t)
                    parent[t] = s
                    todo.append(t)
        return seen, parent

    def path_to(self, parent, s):
        p = []
        while s is not None:
            p.append(s)
            s = parent[s]
        return p[::-1]

    def nonblocking(self, s):
        a = self.action[s]
        if self.moore:
            return any(all(a[xp * self.ny + yp] for xp in range(self.nx))
                       for yp in range(self.ny))
        return all(any(a[xp * self.ny + yp] for yp in range(self.ny))
                   for xp in range(self.nx))

    def obliged(self, s):
        """does the specification still oblige the component to move at s?
        (strict causality: always; otherwise only if the environment can
        keep its action for some next values)"""
        return True

    def check_safety(self):
        """returns (what, state-path, detail) or None"""
        seen, parent = self.reachable()
        for s in sorted(seen):
            for xp in range(self.nx):
                for yp in range(self.ny):
                    j = xp * self.ny + yp
                    if not self.action[s][j]:
                        continue
                    ok = (self.S[s][j] if self.plus_one
                          else (not self.E[s][j]) or self.S[s][j])
                    if not ok:
                        return ('allowed step violates the component action',
                                self.path_to(parent, s), (xp, yp))
            if not self.nonblocking(s):
                return ('blocking', self.path_to(parent, s), None)
            if self.moore:
                # a Moore implementation does not read the next environment
                # values
                a = self.action[s]
                for yp in range(self.ny):
                    vals = {bool(a[xp * self.ny + yp]) for xp in range(self.nx)}
                    if len(vals) > 1:
                        return ('Moore implementation depends on the next '
                                'environment values',
                                self.path_to(parent, s), (None, yp))
        self.seen, self.parent = seen, parent
        return None

    def sccs(self, nodes, succ):
        index, low, on, st, out = {}, {}, set(), [], []
        counter = [0]

        def visit(v):
            index[v] = low[v] = counter[0]
            counter[0] += 1
            st.append(v)
            on.add(v)
            for w in succ(v):
                if w not in nodes:
                    continue
                if w not in index:
                    visit(w)
                    low[v] = min(low[v], low[w])
                elif w in on:
                    low[v] = min(low[v], index[w])
            if low[v] == index[v]:
                comp = []
                while True:
                    w = st.pop()
                    on.discard(w)
                    comp.append(w)
                    if w == v:
                        break
                out.append(comp)
        for v in nodes:
            if v not in index:
                visit(v)
        return out

    def check_liveness(self):
        """reachable cycle (environment keeps its action) violating the
        liveness condition; returns (what, cycle-states) or None"""
        seen, parent = self.reachable()
        sc = lambda v: [t for t, _ in self.succ(v)]

        def cyclic(comp):
            return len(comp) > 1 or comp[0] in sc(comp[0])
        if self.kind == 'streett':
            # violated: some R_j never visited and every P_k left infinitely
            # often
            for j, Rj in enumerate(self.R):
                nodes = {s for s in seen if not Rj[s]}
                for comp in self.sccs(nodes, sc):
                    if not cyclic(comp):
                        continue
                    if all(any(not Pk[s] for s in comp) for Pk in self.P):
                        return (f'cycle avoiding recurrence goal {j} and '
                                'leaving every persistence set', comp)
        else:
            # Rabin(1): must eventually stay in some P_k and visit every R_j:
            # violated iff there is a cycle C such that for every k, C leaves
            # P_k or misses some R_j ... i.e. exists a strongly connected
            # cyclic set C with: for all k, (C not in P_k) or (exists j, C
            # misses R_j).  Search: for each choice, take sub-SCCs.
            bad = self._rabin_bad(seen, sc, cyclic)
            if bad:
                return ('cycle violating persistence-and-recurrence', bad)
        return None

    def _rabin_bad(self, seen, sc, cyclic):
        # a cyclic strongly connected set C is bad iff for all k:
        #   C leaves P_k, or C misses some R_j.
        # Any sub-cycle is also a behaviour, so search recursively:
        # within nodes N, for each SCC C (cyclic): if C is bad -> found;
        # otherwise C is good for some k (C inside P_k and C meets all R_j);
        # a bad cycle inside C must miss some R_j (it stays inside P_k):
        # recurse on C minus R_j for each j.
        def rec(nodes, depth):
            for comp in self.sccs(nodes, sc):
                if not cyclic(comp):
                    continue
                cs = set(comp)
                good = [k for k, Pk in enumerate(self.P)
                        if all(Pk[s] for s in comp)
                        and all(any(Rj[s] for s in comp) for Rj in self.R)]
                if not good:
                    return comp
                if depth > 6:
                    continue
                # sub-cycles: remove one recurrence set, or leave one P_k
                for Rj in self.R:
                    sub = {s for s in cs if not Rj[s]}
                    if sub and sub != cs:
                        r = rec(sub, depth + 1)
                        if r:
                            return r
            return None
        return rec(set(seen), 0)
