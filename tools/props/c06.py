"""C06 — formula-to-BDD translation agrees with integer and Boolean
semantics (DESIGN §6 C06; findings F1, F6, F11)."""
import ast
import concurrent.futures
import json
import os
import re

from vlib import core, coqlit, fol_ast, fol_gen, bitvector_gen
from vlib.core import Broken, Mismatch, Failing

ID = 'C06'
LEVEL = 'proof'
THEORIES = ['theories/L1Circuits/CircuitsProofs.vo', 'theories/L1Circuits/DeepProofs.vo',
            'theories/L1Circuits/PyBitsProofs.vo',
            'theories/L2Compile/EmitProofs.vo',
            'theories/L2Compile/ThreadProofs.vo',
            'theories/L2Compile/LeafProofs.vo',
            'theories/L2Compile/AcceptProofs.vo',
            'theories/L2Compile/CompileProofs.vo',
            'theories/L2Compile/Check.vo']

HEADER = '''From Coq Require Import ZArith List Bool.
Import ListNotations.
From Omega Require Import L1Circuits.Circuits L2Compile.Expr L2Compile.Check.
Notation T := true (only parsing).
Notation F := false (only parsing).
'''

# (the class key 'define-quantifier-or-let-unusable' of finding F14 is retired:
# repaired in /repo by ef8f9d8)


# ------------------------------------------------------------------ tie G
def extract_tables():
    """Literal tables of the translator, read from the source text with
    `ast` (never from the imported module)."""
    path = os.path.join(core.REPO, 'omega/logic/bitvector.py')
    with open(path) as f:
        src = f.read()
    tree = ast.parse(src)
    opmap = None
    sets = {}
    for node in ast.walk(tree):
        if isinstance(node, ast.ClassDef) and node.name == 'Nodes':
            for st in node.body:
                if (isinstance(st, ast.Assign) and
                        getattr(st.targets[0], 'id', None) == 'opmap'):
                    opmap = ast.literal_eval(st.value)
        if isinstance(node, ast.FunctionDef) and node.name in (
                'flatten_comparator', 'flatten_arithmetic'):
            ops = set()
            for sub in ast.walk(node):
                if isinstance(sub, ast.Compare):
                    # `operator in {...}` and `operator == '...'`
                    names = [getattr(sub.left, 'id', None)]
                    if names[0] != 'operator':
                        continue
                    for c in sub.comparators:
                        try:
                            v = ast.literal_eval(c)
                        except ValueError:
                            continue
                        if isinstance(v, str):
                            ops.add(v)
                        elif isinstance(v, (set, frozenset, tuple, list)):
                            ops.update(v)
            sets[node.name] = sorted(ops)
    if opmap is None:
        raise Broken('table', 'bitvector.Nodes.opmap literal not found')
    for k in ('flatten_comparator', 'flatten_arithmetic'):
        if k not in sets:
            raise Broken('table', f'bitvector.{k} not found')
    # the documented grammar: tok("...") of G.expr in doc/doc.md
    with open(os.path.join(core.REPO, 'doc/doc.md')) as f:
        doc = f.read()
    m = re.search(r'/\\ G\.expr =(.*?)/\\ G\.defs =', doc, flags=re.S)
    if not m:
        raise Broken('table', 'doc/doc.md: G.expr production not found')
    body = m.group(1)
    # drop the nested LET that spells out the range production
    toks = re.findall(r'tok\("((?:[^"\\]|\\.)*)"\)', body)
    toks = [t.encode().decode('unicode_escape') for t in toks]
    return opmap, sets, list(dict.fromkeys(toks))


def lexer_normal_forms(tokens):
    """Spelling the real lexer hands to the parser for each token."""
    import omega.logic.lexyacc as lexyacc
    lx = lexyacc.Lexer()
    out = []
    for t in tokens:
        lx.lexer.input(t)
        try:
            got = [tok.value for tok in iter(lx.lexer.token, None)]
        except Exception as e:   # noqa
            got = ['<lexer error>']
        out.append((t, ' '.join(str(g) for g in got)))
    return out


def coq_string(s):
    return '"' + s.replace('"', '""') + '"'


def gen_opmap(ctx):
    opmap, sets, toks = extract_tables()
    norm = lexer_normal_forms(toks)
    lines = [
        '(* GENERATED on every run by tools/props/c06.py from',
        '   omega/logic/bitvector.py (ast.literal_eval of Nodes.opmap, operator',
        '   strings compared in flatten_comparator / flatten_arithmetic),',
        '   doc/doc.md (tok("...") of G.expr) and the real lexer. *)',
        'From Coq Require Import String List.',
        'Import ListNotations.',
        'Open Scope string_scope.',
        'Definition opmap : list (string * string) := [',
        ';\n'.join(f'  ({coq_string(k)}, {coq_string(v)})'
                   for k, v in opmap.items()),
        '].',
        'Definition comparator_ops : list string := ['
        + '; '.join(coq_string(s) for s in sets['flatten_comparator']) + '].',
        'Definition arithmetic_ops : list string := ['
        + '; '.join(coq_string(s) for s in sets['flatten_arithmetic']) + '].',
        '(* documented token, spelling after the lexer *)',
        'Definition doc_tokens : list (string * string) := [',
        ';\n'.join(f'  ({coq_string(k)}, {coq_string(v)})' for k, v in norm),
        '].', '']
    ctx.write_gen('gen/C06_Opmap.v', '\n'.join(lines))
    ctx.extra['generated_tables'] = dict(
        opmap_keys=sorted(opmap), comparator_ops=sets['flatten_comparator'],
        arithmetic_ops=sets['flatten_arithmetic'], doc_tokens=toks)


def prove(ctx):
    with ctx.coq_lock():
        gen_opmap(ctx)
        # tie T: regenerate gen/BitvectorGen.v from the current bitvector.py,
        # then re-prove GenProofs/BitvectorBridge.v (generated circuits =
        # emitter model), GenProofs/BitvectorCorrect.v and the statements
        notes, templates = bitvector_gen.ensure_bitvector(ctx)
        ctx.prove_with_deps('Properties/C06.v', timeout=900)
    ctx.extra['translation'] = dict(
        source=bitvector_gen.SRC, functions=bitvector_gen.FUNCTIONS,
        generated='coq/gen/BitvectorGen.v',
        bridge=['coq/GenProofs/BitvectorBridge.v',
                'coq/GenProofs/BitvectorLeafBridge.v',
                'coq/GenProofs/BitvectorFlatBridge.v',
                'coq/GenProofs/BitvectorCorrect.v',
                'coq/GenProofs/BitvectorFormula.v',
                'coq/GenProofs/BitvectorSuccess.v'],
        string_templates=templates, notes=notes)
    ctx.trusted.append(
        'translator tie T: tools/py2coq_bitvector.py (circuit layer of '
        'omega/logic/bitvector.py -> Gallina: ints = Z, lists of bit '
        'formulas = list bx, prefix-syntax strings read as trees through the '
        'fixed template table printed in coq/gen/BitvectorGen.v, exceptions '
        '= None, in-place list mutation = returned values under an '
        'ownership check, recursion on fuel; everything not translated is '
        'listed as a note in coq/gen/BitvectorGen.v and in the evidence)')
    ctx.trusted.append(
        'tie G: Nodes.opmap and the operator strings of flatten_comparator/'
        'flatten_arithmetic are read from the source with ast; the documented '
        'tokens from doc/doc.md; the lexer normal forms by running the lexer')
    ctx.trusted.append(
        'tie H: the flatten branches that stay external (Binary ==, .., \\in; '
        'the quantifier / LET / junction-list branches of Operator; <<>>; '
        'the expansion of a definition in Var.flatten) and the evaluation of '
        'the prefix string by symbolic/bdd.py are covered by the truth-table '
        'correspondence only')
    ctx.trusted.append(
        'names: LET/registered definitions live in a separate name space in '
        'the model (formulas whose definitions re-use a declared variable '
        'name are outside the model); the harness resolves names')


# ------------------------------------------------------------ running cases
def _nbits(h):
    from vlib import fol_impl
    return fol_impl.nbits(h)


def run_case(case):
    """Run the real code on one case (both back ends).  Returns a dict with
    impl = table | None (rejected) and notes; never raises."""
    from vlib import fol_impl
    decl, tree = case['decl'], case['tree']
    defs = case.get('defs') or []
    full = fol_ast.with_defs(defs, tree)
    slots = fol_ast.free_slots(full, decl)
    out = dict(slots=slots, harness_error=None, backend_diff=None,
               errors={})
    try:
        s = fol_ast.render(tree)
        fol_impl.check_parse(s, tree)
        for n, d in defs:
            fol_impl.check_parse(fol_ast.render(d), d)
    except AssertionError as e:
        out['harness_error'] = str(e)
    except Exception as e:   # noqa: the parser itself refuses the text
        out['parse_error'] = repr(e)
    res = {}
    for be in fol_impl.BACKENDS:
        try:
            if case['kind'] == 'bits':
                res[be] = fol_impl.bits_table(decl, tree, slots, be)
            else:
                res[be] = fol_impl.predicate_table(decl, tree, slots, be, defs)
        except fol_impl.Rejected as r:
            res[be] = None
            out['errors'][be] = r.exc
        except ValueError as e:
            res[be] = 'depends'
            out['errors'][be] = str(e)[:300]
    a, b = (res[be] for be in fol_impl.BACKENDS)
    if a != b:
        out['backend_diff'] = True
    out['impl'] = a
    out['impl_other'] = b
    return out


def oracle_rows(case, slots):
    """Oracle value per table row (None where a divisor is zero)."""
    from vlib import fol_impl
    from oracles import fol_eval
    decl = case['decl']
    rows = fol_impl.rows(decl, slots)
    return rows, fol_eval.table(case['tree'], decl, rows, case.get('defs'))


def to_bits_value(bits):
    """Two's complement value of a little-endian list of booleans."""
    n = len(bits) - 1
    return -int(bits[-1]) * 2 ** n + sum(
        1 << i for i, b in enumerate(bits[:-1]) if b)


def oracle_compare(case, run):
    """Compare the implementation's table with the integer oracle.
    Returns None or a Failing."""
    from oracles import fol_eval
    impl = run['impl']
    if impl is None or impl == 'depends':
        return None
    try:
        rows, exp = oracle_rows(case, run['slots'])
    except fol_eval.IllTyped:
        return Failing('translator accepts an ill-typed formula',
                       case_json(case), expected='rejection', got='accepted')
    for row, want, got in zip(rows, exp, impl):
        if want is None:
            continue
        if case['kind'] == 'bits':
            got = to_bits_value(got)
        if want != got:
            asg = {f'{n}{chr(39) if p else ""}': v for (n, p), v in row.items()}
            return Failing(
                f'{fol_ast.render(case["tree"])} at {asg}: '
                f'translator gives {got}, integer semantics {want}',
                dict(case_json(case), assignment=asg),
                expected=want, got=got, key=case.get('key'),
                replay_cmd='./check C06 --replay <this file>')
    return None


def case_json(case):
    return dict(kind=case['kind'], decl={k: v for k, v in case['decl'].items()},
                formula=fol_ast.render(case['tree']),
                tree=fol_ast.to_json(case['tree']),
                defs=[[n, fol_ast.render(d), fol_ast.to_json(d)]
                      for n, d in case.get('defs') or []],
                cls=case.get('cls'))


def case_from_json(d):
    decl = {k: (v if v == 'bool' else tuple(v)) for k, v in d['decl'].items()}
    return dict(kind=d['kind'], decl=decl, tree=fol_ast.from_json(d['tree']),
                defs=[(n, fol_ast.from_json(t)) for n, _, t in d.get('defs', [])],
                cls=d.get('cls'))


def lit_table(tbl):
    return '[' + ';'.join('T' if b else 'F' for b in tbl) + ']'


def coq_term(case, run):
    decl = case['decl']
    names = fol_ast.Names(decl)
    e = fol_ast.to_coq(fol_ast.with_defs(case.get('defs') or [],
                                         case['tree']), names)
    t = fol_ast.coq_table(decl)
    slots = fol_ast.coq_slots(run['slots'], names)
    impl = run['impl']
    if case['kind'] == 'bits':
        lit = 'None' if impl is None else \
            '(Some [' + ';'.join(lit_table(r) for r in impl) + '])'
        return f'check_bits {t} {slots} {e} {lit}'
    lit = 'None' if impl is None else f'(Some {lit_table(impl)})'
    return f'check_pred {t} {slots} {e} {lit}'


def corpus_cases():
    """Minimised failures of earlier runs (corpus/C06/*.json), run first."""
    d = os.path.join(core.VERIF, 'corpus', 'C06')
    out = []
    for fn in sorted(os.listdir(d)) if os.path.isdir(d) else []:
        if fn.endswith('.json'):
            with open(os.path.join(d, fn)) as f:
                out.append(case_from_json(json.load(f)))
    return out


def build_cases(ctx):
    rng = ctx.rng
    thorough = ctx.thorough
    maxw = 5 if thorough else 4
    cases = corpus_cases() + list(fol_gen.sweep_cases(rng, maxw))
    n_rand = 20000 if thorough else 700
    n_rej = 2000 if thorough else 160
    max_bits = 11 if thorough else 9
    for _ in range(n_rand):
        cases.append(fol_gen.random_case(rng, maxw, max_bits))
    for _ in range(n_rej):
        cases.append(fol_gen.reject_case(rng, maxw, max_bits))
    return cases


def define_probes():
    """Registered definitions that contain a quantifier or LET (the class of
    the repaired defect F14: before ef8f9d8 such a definition was accepted
    but could not be used, or crashed `define`).  Ordinary cases now: a
    mismatch is a violation."""
    decl = {'x': (0, 3), 'y': (-2, 1)}
    q = ('quant', 'E', [('y', False)],
         ('cmp', '=', ('arith', '+', ('var', 'x'), ('var', 'y')), ('num', 0)))
    a = ('quant', 'A', [('y', False)],
         ('cmp', '<', ('arith', '+', ('var', 'x'), ('var', 'y')), ('num', 4)))
    return [dict(kind='pred', decl=decl, tree=('op', 'p'), defs=[('p', q)],
                 cls='probe:define-quantifier'),
            dict(kind='pred', decl=decl,
                 tree=('bin', '\\/', ('op', 'p'), ('op', 'r')),
                 defs=[('p', a), ('r', q)], cls='probe:define-quantifier')]


def correspond(ctx):
    cases = build_cases(ctx) + define_probes()
    ctx.log(f'{len(cases)} cases generated')
    with concurrent.futures.ProcessPoolExecutor(core.NPROC) as ex:
        runs = list(ex.map(run_case, cases, chunksize=16))
    ctx.log('implementation tables computed')
    mism = []
    stats = dict(accepted=0, rejected=0, by_class={}, rows=0,
                 oracle_rows_compared=0, divzero_rows=0)
    ops_seen = {}
    groups, idx = [], []
    nontrivial = 0
    for i, (case, run) in enumerate(zip(cases, runs)):
        cls = case['cls'].split(':')[0] if case['cls'].startswith(
            ('random', 'boundary', 'corpus')) else case['cls']
        c = stats['by_class'].setdefault(cls, dict(n=0, rejected=0))
        c['n'] += 1
        fol_ast.operators(case['tree'], ops_seen)
        for _, d in case.get('defs') or []:
            fol_ast.operators(d, ops_seen)
        if run['harness_error']:
            raise Broken('infra', 'harness: ' + run['harness_error'])
        if run.get('parse_error') and run['impl'] is not None:
            raise Broken('infra', 'harness: parse check failed but the '
                         'library accepted: ' + run['parse_error'])
        if run['backend_diff']:
            mism.append(Mismatch('dd.autoref and dd.cudd give different '
                                 'results', case_json(case),
                                 impl=dict(errors=run['errors'])))
            continue
        if run['impl'] == 'depends':
            mism.append(Mismatch(
                'BDD depends on bits the formula does not read: '
                + run['errors'].get('autoref', ''), case_json(case),
                property_fails=True))
            continue
        if case.get('key'):
            # known-finding probe: the definition must be usable
            if run['impl'] is None:
                mism.append(Mismatch(
                    'registered definition with a quantifier cannot be used: '
                    + run['errors'].get('autoref', ''), case_json(case),
                    key=case['key'], property_fails=True))
            continue
        if run['impl'] is None:
            stats['rejected'] += 1
            c['rejected'] += 1
        else:
            stats['accepted'] += 1
            stats['rows'] += len(run['impl'])
            flat = run['impl'] if case['kind'] == 'pred' else \
                [tuple(r) for r in run['impl']]
            if len(set(flat)) > 1:
                nontrivial += 1
        groups.append(('', [coq_term(case, run)]))
        idx.append(i)
    ctx.log('evaluating the model in Coq')
    res = ctx.eval_groups('corr', HEADER, groups,
                          shard=100 if ctx.thorough else 60, timeout=1500)
    ctx.log('model evaluated')
    bad = [i for i, ok in zip(idx, res) if not ok]
    # report one differing case per operator class first
    first, rest, sigs = [], [], set()
    for i in bad:
        sig = cases[i]['cls'].replace('sweep-api', 'sweep')
        (rest if sig in sigs else first).append(i)
        sigs.add(sig)
    for i in (first + rest)[:24]:
        case, run = cases[i], runs[i]
        f = oracle_compare(case, run)
        what = ('translator rejects, model accepts' if run['impl'] is None
                else 'truth table differs from the model')
        mism.append(Mismatch(
            f'{what}: {fol_ast.render(case["tree"])}',
            dict(case_json(case), errors=run['errors']),
            impl=run['impl'] if run['impl'] is None or len(run['impl']) <= 64
            else '(table of %d rows)' % len(run['impl']),
            property_fails=True if f else None))
    # L1d: the emitted circuits, token by token (auxiliary structural tie)
    from vlib import fol_deep
    deep = list(fol_deep.cases(7 if ctx.thorough else 5))
    dres = ctx.eval_groups('deep', fol_deep.HEADER,
                           [('', [t]) for _, t in deep], shard=40, timeout=1500)
    dbad = [lab for (lab, _), ok in zip(deep, dres) if not ok]
    for lab in dbad[:6]:
        mism.append(Mismatch(
            'the formulas/registers emitted by bitvector.py differ from the '
            'deep model Deep.d_*: ' + lab, None))
    ctx.extra['deep_token_comparison'] = dict(
        circuits=['adder_subtractor', 'less_than', 'flatten_comparator',
                  'ite_function', '_negate_if', 'abs_', 'multiplier',
                  'restoring_divider'],
        widths=f'2..{7 if ctx.thorough else 5} (all ordered pairs)',
        starts=[0, 5], comparisons=len(deep), differing=len(dbad))
    ctx.cov['evaluations'] += len(deep)
    ctx.log('deep model compared')
    # the search oracle is cross-checked against the implementation on every
    # accepted case (cheap): keeps the oracle honest and catches a defect
    # that model and implementation would share
    n_or = 0
    badset = set(bad)
    for i in idx:
        case, run = cases[i], runs[i]
        if run['impl'] is None:
            continue
        f = oracle_compare(case, run)
        n_or += 1
        if f and i not in badset:
            mism.append(Mismatch('integer oracle disagrees with translator '
                                 'and model: ' + f.what, f.case,
                                 impl=f.got, model=f.expected,
                                 property_fails=True))
    ctx.cov['evaluations'] += len(res)
    ctx.cov['distinct_nontrivial'] += nontrivial
    ctx.cov['exhaustive'] = (
        'sweep: every binary operator (+ - * / % and the 9 comparator '
        'spellings) x all ordered pairs of (shape, magnitude width) with '
        f'width 1..{5 if ctx.thorough else 4} x ALL assignments of the bits')
    ctx.cov['rule'] = (
        '(i) operator sweep: result BITS of x op y read through '
        'Arithmetic.flatten + symbolic.bdd.add_expr, and predicates '
        '(x op y) cmp k / x cmp y through Context.add_expr; hints drawn at '
        'random inside each (shape, width) class. (ii) random well-typed '
        'predicates of depth <= 4 over 2-4 variables: connectives in all '
        'spellings, comparators, + - * / %, \\in, ite/IF at both levels, LET '
        '(1-2 definitions), Context.define + with_ops, primes (postfix and '
        'X), \\A/\\E over 1-2 variables (also primed), constants inside and '
        'outside hints. (iii) boundary stream: ill-typed operands, '
        'comparator/quantifier in arithmetic scope, arithmetic operand of '
        '\\in, redefinition, undefined operator, constants/products around '
        'the 32-bit limit; acceptance must coincide with the model. Every '
        'case on dd.autoref AND dd.cudd (tables must be equal); compared as '
        'truth tables over ALL assignments of the bits the formula reads, '
        'model evaluated by vm_compute. non-trivial = table not constant')
    shown = [i for i in idx if cases[i]['cls'] == 'random'][:3] + \
        [i for i in idx if cases[i]['cls'].startswith('boundary')][:2]
    ctx.cov['samples'] = [dict(
        formula=fol_ast.render(cases[i]['tree']),
        defs=[[n, fol_ast.render(d)] for n, d in cases[i].get('defs') or []],
        decl={k: list(v) if v != 'bool' else v
              for k, v in cases[i]['decl'].items()},
        slots=[list(s) for s in runs[i]['slots']],
        result='rejected' if runs[i]['impl'] is None else
        ''.join('1' if b else '0' for b in runs[i]['impl'][:64]))
        for i in shown]
    ctx.extra['correspondence'] = dict(
        cases=len(res), mismatches=len(bad), accepted=stats['accepted'],
        rejected=stats['rejected'], table_rows=stats['rows'],
        by_class=stats['by_class'], operators_used=ops_seen,
        oracle_crosschecked_cases=n_or, backends=['autoref', 'cudd'])
    return mism


# ------------------------------------------------------------------ search
def search(ctx, broken, mismatches):
    out, seen = [], set()
    # differing cases first (one failing input per operator class), the
    # known-finding probes last
    for m in sorted(mismatches, key=lambda m: m.key is not None):
        if not m.case or 'tree' not in m.case:
            continue
        case = case_from_json(m.case)
        case['key'] = m.key
        sig = (case.get('cls') or '').replace('sweep-api', 'sweep')
        if sig in seen:
            continue
        run = run_case(case)
        if run['impl'] == 'depends':
            f = Failing(m.what, m.case)
        elif run['backend_diff']:
            f = Failing(m.what, m.case, expected='equal results',
                        got=run['errors'])
        elif run['impl'] is None:
            f = rejected_but_meaningful(case, run)
        else:
            f = oracle_compare(case, run)
        if f:
            seen.add(sig)
            out.append(shrink(f, case))
        if len(out) >= 5:
            break
    if out:
        return out
    # fresh inputs: operator sweep (cheap, exhaustive) then random formulas
    budget = 3000 if ctx.thorough else 1200
    gen = list(fol_gen.sweep_cases(ctx.rng, 3))
    ctx.rng.shuffle(gen)
    gen = gen[:budget // 2] + [fol_gen.random_case(ctx.rng, 4, 8)
                               for _ in range(budget // 2)]
    for case in gen:
        run = run_case(case)
        if run['impl'] is None:
            f = rejected_but_meaningful(case, run)
        elif run['impl'] == 'depends' or run['backend_diff']:
            f = Failing('inconsistent result', case_json(case))
        else:
            f = oracle_compare(case, run)
        if f:
            out.append(shrink(f, case))
            break
    return out


def rejected_but_meaningful(case, run):
    """The translator raised on a formula that the oracle can evaluate and
    whose operators are all documented: a failing input unless a width
    limit or a documented scope restriction explains the rejection."""
    from oracles import fol_eval
    if not case['cls'].startswith(('sweep', 'random', 'probe', 'corpus')):
        return None
    try:
        _, vals = oracle_rows(case, run['slots'])
    except fol_eval.IllTyped:
        return None
    if case['kind'] == 'pred' and any(
            v is not None and not isinstance(v, bool) for v in vals):
        return None      # not a predicate
    err = ' '.join(run['errors'].values())
    return Failing(
        f'translator rejects the documented formula '
        f'{fol_ast.render(case["tree"])}: {err[:200]}',
        case_json(case), expected='accepted', got='exception: ' + err[:200],
        key=case.get('key'), replay_cmd='./check C06 --replay <this file>')


def shrink(f, case):
    """Greedy: the smallest sub-formula (same declarations) that still fails
    in the same way (wrong value / rejected)."""
    from oracles import fol_eval
    if case['kind'] != 'pred' or case.get('defs'):
        return f
    seen, subs = set(), []
    for _, s in fol_gen._subterms(case['tree']):
        if s != case['tree'] and repr(s) not in seen:
            seen.add(repr(s))
            subs.append(s)
    subs.sort(key=fol_ast.size)
    rejected = f.got is not None and str(f.got).startswith('exception')
    for sub in subs[:60]:
        c2 = dict(case, tree=sub, cls=case.get('cls'))
        try:
            run = run_case(c2)
            if run['impl'] in (None, 'depends') or run['backend_diff']:
                g = rejected_but_meaningful(c2, run) \
                    if rejected and run['impl'] is None else None
            else:
                g = None if rejected else oracle_compare(c2, run)
        except Exception:   # noqa: candidate not a predicate
            g = None
        if g and 'ill-typed' not in g.what:
            return g
    return f


def replay(path):
    d = json.load(open(path))
    c = d.get('input') or d.get('case')
    case = case_from_json(c)
    run = run_case(case)
    if run['impl'] is None:
        f = rejected_but_meaningful(case, run)
    elif run['impl'] == 'depends' or run['backend_diff']:
        f = Failing('inconsistent result', c)
    else:
        f = oracle_compare(case, run)
    if f:
        print('still fails:', f.what)
        return 1
    print('passes')
    return 0
