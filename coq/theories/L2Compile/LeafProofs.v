(* L2l / LeafProofs: Python's bin / lstrip / zfill / reversed route of
   int_to_twos_complement yields the two's complement digits of the model
   (Circuits.int_to_twos_complement), and what the leaves denote. *)
From Coq Require Import String Ascii ZArith List Bool Lia.
From Omega Require Import L1Circuits.Circuits L1Circuits.CircuitsProofs L1Circuits.Deep
  L1Circuits.PyBits L1Circuits.PyStr L2Compile.Thread L2Compile.Leaf.
Import ListNotations.
Open Scope Z_scope.

(* binary digits of a positive number, least significant first *)
Fixpoint pbits (p : positive) : list bool :=
  match p with
  | xH => [true]
  | xO q => false :: pbits q
  | xI q => true :: pbits q
  end.

Lemma chars_app : forall s1 s2, py_chars (s1 ++ s2) = (py_chars s1 ++ py_chars s2)%list.
Proof. induction s1; intros; cbn; congruence. Qed.

Lemma chars_pos_digits : forall p acc,
  py_chars (pos_digits p acc) = (map bstr (rev (pbits p)) ++ py_chars acc)%list.
Proof.
  induction p as [q IH|q IH|]; intros acc; cbn [pos_digits pbits rev].
  - rewrite IH, map_app, <- app_assoc. reflexivity.
  - rewrite IH, map_app, <- app_assoc. reflexivity.
  - reflexivity.
Qed.

Lemma pos_digits_head : forall p acc, exists r, pos_digits p acc = String "1" r.
Proof.
  induction p as [q IH|q IH|]; intros acc; cbn [pos_digits]; [apply IH|apply IH|].
  eexists. reflexivity.
Qed.

Lemma pbits_length : forall p, length (pbits p) = Pos.to_nat (Pos.size p).
Proof.
  induction p; cbn [pbits length Pos.size]; rewrite ?Pos2Nat.inj_succ;
    try rewrite IHp; reflexivity.
Qed.

Lemma to_bits_zero : forall k, to_bits k 0 = repeat false k.
Proof. induction k; cbn; congruence. Qed.

Lemma pbits_to_bits : forall p k,
  to_bits (Pos.to_nat (Pos.size p) + k) (Zpos p) = (pbits p ++ repeat false k)%list.
Proof.
  induction p as [q IH|q IH|]; intros k; cbn [Pos.size pbits]; rewrite ?Pos2Nat.inj_succ.
  - cbn [plus to_bits app]. rewrite <- IH. reflexivity.
  - cbn [plus to_bits app]. rewrite <- IH. reflexivity.
  - change (Pos.to_nat 1) with 1%nat. cbn [plus to_bits pbits app].
    change (Z.div2 1) with 0. rewrite to_bits_zero. reflexivity.
Qed.

Lemma chars_zeros : forall k, py_chars (zeros k) = repeat "0"%string k.
Proof. induction k; cbn; congruence. Qed.

Lemma length_chars : forall s, length (py_chars s) = String.length s.
Proof. induction s; cbn; congruence. Qed.

Lemma rev_repeat : forall A (x : A) k, rev (repeat x k) = repeat x k.
Proof.
  intros A x. induction k; [reflexivity|]. cbn [repeat rev]. rewrite IHk.
  clear. induction k; cbn; congruence.
Qed.

Lemma zeros_false : forall k, repeat "0"%string k = map bstr (repeat false k).
Proof. induction k; cbn; congruence. Qed.

(* bin / lstrip / zfill / reversed of a non-negative number *)
Lemma binary_names : forall m y, 0 <= m -> 0 <= y ->
  rev (py_chars (py_zfill m (py_lstrip "-0b" (py_bin y))))
  = map bstr (to_bits (Z.to_nat (Z.max m (py_bit_length y))) y).
Proof.
  intros m y Hm Hy. destruct y as [|p|p]; [| |lia].
  - cbn [py_bin py_bit_length].
    change (py_lstrip "-0b" "0b0") with EmptyString.
    unfold py_zfill. cbn [String.length]. rewrite Z.sub_0_r, chars_zeros.
    rewrite rev_repeat, Z.max_l by lia. rewrite to_bits_zero. apply zeros_false.
  - cbn [py_bin py_bit_length].
    destruct (pos_digits_head p "") as [r Hr].
    change ("0b" ++ pos_digits p "")%string with (String "0" (String "b" (pos_digits p ""))).
    rewrite Hr.
    change (py_lstrip "-0b" (String "0" (String "b" (String "1" r)))) with (String "1" r).
    rewrite <- Hr. clear r Hr.
    assert (Hl : String.length (pos_digits p "") = Pos.to_nat (Pos.size p)).
    { rewrite <- length_chars, chars_pos_digits, app_nil_r, map_length, rev_length.
      apply pbits_length. }
    assert (E : py_zfill m (pos_digits p "") =
            (zeros (Z.to_nat (m - Z.of_nat (String.length (pos_digits p "")))) ++ pos_digits p "")%string).
    { destruct (pos_digits_head p "") as [r Hr]. rewrite Hr. reflexivity. }
    rewrite E, Hl, chars_app, chars_zeros, chars_pos_digits, app_nil_r.
    rewrite rev_app_distr, rev_repeat, <- map_rev, rev_involutive.
    set (k := Z.to_nat (m - Z.of_nat (Pos.to_nat (Pos.size p)))).
    replace (Z.to_nat (Z.max m (Zpos (Pos.size p)))) with (Pos.to_nat (Pos.size p) + k)%nat
      by (subst k; lia).
    rewrite pbits_to_bits. rewrite zeros_false, <- map_app. reflexivity.
Qed.

Lemma size_bounds : forall p, 2 ^ (Zpos (Pos.size p) - 1) <= Zpos p < 2 ^ Zpos (Pos.size p).
Proof.
  intros p. split.
  - assert (H := Pos.size_le p).
    assert (E : Zpos (2 ^ Pos.size p) <= Zpos p~0) by exact H.
    rewrite Pos2Z.inj_pow in E.
    assert (X : Zpos p~0 = 2 * Zpos p) by reflexivity.
    replace (Zpos (Pos.size p)) with (Z.succ (Zpos (Pos.size p) - 1)) in E by lia.
    rewrite Z.pow_succ_r in E by lia. lia.
  - assert (H := Pos.size_gt p).
    assert (E : Zpos p < Zpos (2 ^ Pos.size p)) by exact H.
    rewrite Pos2Z.inj_pow in E. exact E.
Qed.

Lemma py_bit_length_nat : forall z, Z.to_nat (py_bit_length z) = bit_length z.
Proof.
  intros [|p|p]; [reflexivity| |]; unfold bit_length; cbn [py_bit_length Z.abs];
    destruct p; cbn [Z.log2 Pos.size]; rewrite ?Pos2Z.inj_succ; reflexivity.
Qed.

Lemma to_bits_add_pow : forall n y, to_bits n (2 ^ Z.of_nat n + y) = to_bits n y.
Proof.
  induction n as [|n IH]; intros y; [reflexivity|]. cbn [to_bits].
  rewrite Nat2Z.inj_succ, Z.pow_succ_r by lia. f_equal.
  - rewrite Z.add_comm, Z.odd_add_mul_2. reflexivity.
  - rewrite <- (IH (Z.div2 y)). f_equal. rewrite !Z.div2_div.
    replace (2 * 2 ^ Z.of_nat n + y) with (y + 2 ^ Z.of_nat n * 2) by ring.
    rewrite Z.div_add by lia. apply Z.add_comm.
Qed.

(* the digit strings before the self-check of int_to_twos_complement *)
Lemma numeral_names : forall x,
  let n := py_bit_length x in
  let y := if x >=? 0 then x else 2 ^ n + x in
  let m := Z.max n 1 in
  (rev (py_chars (py_zfill m (py_lstrip "-0b" (py_bin y)))) ++ [bstr (x <? 0)])%list
  = num_names x.
Proof.
  intros x n y m. unfold num_names, int_to_twos_complement. rewrite map_app. cbn [map].
  f_equal. subst y m n.
  assert (N : 0 <= py_bit_length x) by (destruct x; cbn; lia).
  destruct (x >=? 0) eqn:S.
  - apply Z.geb_le in S. rewrite binary_names by lia.
    replace (Z.to_nat (Z.max (Z.max (py_bit_length x) 1) (py_bit_length x)))
      with (Nat.max (bit_length x) 1) by (rewrite <- py_bit_length_nat; lia).
    reflexivity.
  - rewrite Z.geb_leb in S. apply Z.leb_gt in S. destruct x as [|p|p]; try lia.
    cbn [py_bit_length] in *. pose proof (size_bounds p) as B.
    assert (Y : 0 <= 2 ^ Zpos (Pos.size p) + Zneg p < 2 ^ Zpos (Pos.size p)) by lia.
    rewrite binary_names by lia.
    assert (L : py_bit_length (2 ^ Zpos (Pos.size p) + Zneg p) <= Zpos (Pos.size p)).
    { destruct (2 ^ Zpos (Pos.size p) + Zneg p) as [|q|q] eqn:E; cbn [py_bit_length]; try lia.
      pose proof (size_bounds q) as Bq.
      destruct (Z.le_gt_cases (Zpos (Pos.size q)) (Zpos (Pos.size p))) as [|G]; [assumption|].
      assert (2 ^ Zpos (Pos.size p) <= 2 ^ (Zpos (Pos.size q) - 1))
        by (apply Z.pow_le_mono_r; lia). lia. }
    replace (Z.to_nat (Z.max (Z.max (Zpos (Pos.size p)) 1)
                         (py_bit_length (2 ^ Zpos (Pos.size p) + Zneg p))))
      with (Pos.to_nat (Pos.size p)) by lia.
    replace (Nat.max (bit_length (Zneg p)) 1) with (Pos.to_nat (Pos.size p))
      by (rewrite <- py_bit_length_nat; cbn [py_bit_length]; lia).
    replace (Zpos (Pos.size p)) with (Z.of_nat (Pos.to_nat (Pos.size p))) at 1 by lia.
    rewrite to_bits_add_pow. reflexivity.
Qed.

(* reading the digit strings as formulas *)
Lemma token_bstr : forall var_id l,
  py_mapM (py_token var_id) (map bstr l) = Some (map XC l).
Proof.
  intros var_id. induction l as [|b l IH]; [reflexivity|]. cbn [map py_mapM].
  rewrite IH. destruct b; reflexivity.
Qed.
