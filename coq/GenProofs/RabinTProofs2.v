(* Rabin transducer model, arbitrary iterate lists:
   (b) a Moore implementation does not depend on the next environment values;
   (c) both memory variables are in range before every allowed step in which
       the environment keeps its action (or under strict causality), and
       after it when the environment keeps its action. *)
From Coq Require Import List Bool Arith Lia.
Import ListNotations.
From Omega Require Import L4.Arena L4.ArenaFacts L4.Kleene L4.GameSpec.
From OmegaGen Require Import FixpointGen Gr1Gen.
From OmegaGP Require Import FixpointProofs TransducerModel CaSpec StreettTProofs.

Section RabinB.
Variables nc nx ny H G : nat.
Variables E S : bdd.
Variables holds goals : list bdd.
Local Notation M := (H * G).
Local Notation nyE := (ny * M).
Local Notation band := (Arena.band nc nx nyE).
Local Notation bor := (Arena.bor nc nx nyE).
Local Notation bnot := (Arena.bnot nc nx nyE).
Local Notation indep := (indep).

Local Notation i_band := (indep_band nc nx ny M).
Local Notation i_bor := (indep_bor nc nx ny M).
Local Notation i_bnot := (indep_bnot nc nx ny M).
Local Notation i_memo := (indep_memo nc nx ny M).

Lemma indep_mp f : (forall v x', f (setg Envp v x') = f v) -> indep (mp nc nx ny H G f).
Proof. intros Hf. unfold mp. apply i_memo, Hf. Qed.

Lemma indep_step_moore po T :
  indep (FixpointGen.step nc nx nyE true po 0 E S T).
Proof.
  intros v x'. rewrite !step_spec. unfold cpre_spec, phi. destruct v; reflexivity.
Qed.

Ltac mem_indep := apply indep_mp; intros v x'; destruct v; reflexivity.

Theorem rabin_action_moore_indep po zk yki xkijr :
  Forall indep zk -> Forall (Forall indep) yki ->
  Forall (Forall (Forall (Forall indep))) xkijr ->
  Forall indep goals -> Forall indep holds ->
  indep (rabin_action nc nx ny H G E S holds goals true po zk yki xkijr).
Proof.
  intros Hz Hy Hx Hg Hh. unfold rabin_action, rabin_action_k. cbv beta zeta.
  destruct po; cbn [negb].
  2: { destruct (fold_left _ zk _) as [r1 b1].
       destruct (fold_left _ (combine (combine zk yki) xkijr) _) as [[[r2 r3] r4] b2].
       apply indep_forall_envp. }
  (* plus_one: every conjunct is independent *)
  assert (Hca : forall t e, indep (Gr1Gen.controllable_action nc nx nyE E S true true 0 t e))
    by (intros; apply (indep_ca nc nx ny M E S true)).
  (* rho_1 *)
  match goal with |- context [fold_left ?f zk ?a] =>
    assert (H1 : indep (fst (fold_left f zk a)) /\ indep (snd (fold_left f zk a))) end.
  { apply (fold_left_inv_in (fun p : bdd * bdd => indep (fst p) /\ indep (snd p))).
    - cbn [fst snd]. split; apply indep_bfalse.
    - intros [r basin] z Hzin [Hr Hb]. cbn [fst snd].
      assert (Hzi : indep z).
      { rewrite Forall_forall in Hz. apply Hz, Hzin. }
      split; [|exact Hzi].
      apply i_bor; [exact Hr|]. apply i_band; [|mem_indep].
      apply i_band; [|apply Hca]. apply i_band; [exact Hzi|apply i_bnot, Hb]. }
  destruct (fold_left _ zk _) as [rho_1 b1]. cbn [fst snd] in H1.
  match goal with |- context [fold_left ?f (combine (combine zk yki) xkijr) ?a] =>
    assert (H2 : let p := fold_left f (combine (combine zk yki) xkijr) a in
                 indep (fst (fst (fst p))) /\ indep (snd (fst (fst p))) /\
                 indep (snd (fst p)) /\ indep (snd p)) end.
  { apply (fold_left_inv_in (fun p : bdd * bdd * bdd * bdd =>
             indep (fst (fst (fst p))) /\ indep (snd (fst (fst p))) /\
             indep (snd (fst p)) /\ indep (snd p))).
    - cbn [fst snd]. repeat split; apply indep_bfalse.
    - intros [[[r2 r3] r4] basin] [[z yi] xijr] Hin [Hr2 [Hr3 [Hr4 Hb]]]. cbn [fst snd].
      pose proof (in_combine_l _ _ _ _ Hin) as Hzy.
      pose proof (in_combine_r _ _ _ _ Hin) as Hxin.
      pose proof (in_combine_l _ _ _ _ Hzy) as Hzin.
      pose proof (in_combine_r _ _ _ _ Hzy) as Hyin.
      assert (Hzi : indep z) by (rewrite Forall_forall in Hz; apply Hz, Hzin).
      assert (Hyi : Forall indep yi) by (rewrite Forall_forall in Hy; apply Hy, Hyin).
      assert (Hxi : Forall (Forall (Forall indep)) xijr)
        by (rewrite Forall_forall in Hx; apply Hx, Hxin).
      assert (Hrim : indep (band (band z (bnot basin))
                                 (bnot (FixpointGen.step nc nx nyE true true 0 E S basin)))).
      { apply i_band; [apply i_band; [exact Hzi|apply i_bnot, Hb]|].
        apply i_bnot, indep_step_moore. }
      assert (Hv : forall (K : nat -> V -> bool),
                (forall i v x', K i (setg Envp v x') = K i v) ->
                indep (fold_left (fun acc '(i, y) =>
                         bor acc (band (mp nc nx ny H G (K i))
                                       (Gr1Gen.controllable_action nc nx nyE E S true true 0 y None)))
                       (enumerate 0 yi) bfalse)).
      { intros K HK. apply fold_left_inv_in; [apply indep_bfalse|].
        intros acc [i y] _ Hacc. apply i_bor; [exact Hacc|].
        apply i_band; [apply indep_mp, HK|apply Hca]. }
      repeat split.
      + apply i_bor; [exact Hr2|]. apply i_band; [apply i_band; [exact Hrim|mem_indep]|].
        apply (Hv (fun i v => Nat.eqb (rhp H G v) i)). intros i v x'. destruct v; reflexivity.
      + apply i_bor; [exact Hr3|]. apply i_band; [apply i_band; [exact Hrim|mem_indep]|].
        apply fold_left_inv_in; [apply indep_bfalse|].
        intros acc [i xjr] Hi Hacc. apply in_enumerate in Hi.
        assert (Hxjr : Forall (Forall indep) xjr) by (rewrite Forall_forall in Hxi; apply Hxi, Hi).
        apply fold_left_inv_in; [exact Hacc|].
        intros acc2 [j [xr goal]] Hj Hacc2. apply in_enumerate in Hj.
        pose proof (in_combine_l _ _ _ _ Hj) as Hxr. pose proof (in_combine_r _ _ _ _ Hj) as Hgo.
        assert (Hxri : Forall indep xr) by (rewrite Forall_forall in Hxjr; apply Hxjr, Hxr).
        assert (Hgi : indep goal) by (rewrite Forall_forall in Hg; apply Hg, Hgo).
        match goal with |- context [fold_left ?f (tl xr) ?a] =>
          assert (Hp : indep (fst (fold_left f (tl xr) a)) /\ indep (snd (fold_left f (tl xr) a))) end.
        { apply (fold_left_inv_in (fun p : bdd * bdd => indep (fst p) /\ indep (snd p))).
          - cbn [fst snd]. split; [apply indep_bfalse|].
            apply Forall_hd; [apply indep_bfalse|exact Hxri].
          - intros [p xb] x Hxin2 [Hp Hxb]. cbn [fst snd].
            assert (Hxi2 : indep x).
            { apply Forall_tl in Hxri. rewrite Forall_forall in Hxri. apply Hxri, Hxin2. }
            split; [|exact Hxi2]. apply i_bor; [exact Hp|].
            apply i_band; [|exact Hxi2]. apply i_band; [apply Hca|apply i_bnot, Hxb]. }
        destruct (fold_left _ (tl xr) _) as [p xb]. cbn [fst snd] in Hp.
        apply i_bor; [exact Hacc2|]. apply i_band; [|apply i_bnot, Hgi].
        apply i_band; [apply Hp|mem_indep].
      + apply i_bor; [exact Hr4|]. apply i_band; [apply Hca|].
        apply (Hv (fun i v => Nat.eqb (rh H G v) i)). intros i v x'. destruct v; reflexivity.
      + exact Hzi. }
  destruct (fold_left _ (combine (combine zk yki) xkijr) _) as [[[rho_2 rho_3] rho_4] b2].
  cbn [fst snd] in H2. destruct H2 as [Hr2 [Hr3 [Hr4 _]]].
  apply i_band; [|mem_indep].
  repeat apply i_bor; tauto.
Qed.

End RabinB.

Section RabinC.
Variables nc nx ny H G : nat.
Variables E S : bdd.
Variables holds goals : list bdd.
Local Notation M := (H * G).
Local Notation nyE := (ny * M).
Local Notation band := (Arena.band nc nx nyE).
Local Notation bor := (Arena.bor nc nx nyE).
Local Notation bnot := (Arena.bnot nc nx nyE).
Local Notation inr := (inr nc nx nyE).
Local Notation nh := (length holds).
Local Notation ng1 := (length goals - 1).

(* memory in range before => memory in range after *)
Definition Rm (v : V) : bool :=
  negb (Nat.leb (rh H G v) nh && Nat.leb (rg H G v) ng1) ||
  (Nat.leb (rhp H G v) nh && Nat.leb (rgp H G v) ng1).

Definition SubE (u : bdd) : Prop :=
  forall v, inr v -> u v = true -> E v = true -> Rm v = true.

Lemma SubE_bor a b : SubE a -> SubE b -> SubE (bor a b).
Proof.
  intros Ha Hb v Hv. rewrite bor_spec, orb_true_iff. intros [H0|H0] He; [apply Ha|apply Hb]; assumption.
Qed.
Lemma SubE_band_l a b : SubE a -> SubE (band a b).
Proof. intros Ha v Hv. rewrite band_spec, andb_true_iff. intros [H0 _]. apply Ha; assumption. Qed.
Lemma SubE_band_r a b : SubE b -> SubE (band a b).
Proof. intros Hb v Hv. rewrite band_spec, andb_true_iff. intros [_ H0]. apply Hb; assumption. Qed.
Lemma SubE_bfalse : SubE bfalse.
Proof. intros v _ H0. discriminate. Qed.

Lemma SubE_mp f : (forall v, f v = true -> Rm v = true) -> SubE (mp nc nx ny H G f).
Proof. intros Hf v _ Hm _. unfold mp in Hm. rewrite memo_id in Hm. apply Hf, Hm. Qed.

Lemma Rm_same v : Nat.eqb (rgp H G v) (rg H G v) = true -> Nat.eqb (rhp H G v) (rh H G v) = true ->
  Rm v = true.
Proof.
  rewrite !Nat.eqb_eq. intros H1 H2. unfold Rm. rewrite H1, H2.
  destruct (Nat.leb (rh H G v) nh && Nat.leb (rg H G v) ng1); reflexivity.
Qed.

Lemma Rm_g_same_h v i : i <= nh ->
  Nat.eqb (rgp H G v) (rg H G v) = true -> Nat.eqb (rhp H G v) i = true -> Rm v = true.
Proof.
  rewrite !Nat.eqb_eq. intros Hi H1 H2. unfold Rm. rewrite H1, H2.
  destruct (Nat.leb (rh H G v) nh) eqn:E1, (Nat.leb (rg H G v) ng1) eqn:E2; cbn; try reflexivity.
  rewrite andb_true_r. apply Nat.leb_le. exact Hi.
Qed.

Local Notation ca mo po := (Gr1Gen.controllable_action nc nx nyE E S mo po 0).

(* a disjunction over indexed memory tests: some index below the length holds *)
Lemma vfold_hit mo po (K : nat -> V -> bool) l : forall (acc : bdd) k w,
  fold_left (fun acc '(i, y) => bor acc (band (mp nc nx ny H G (K i)) (ca mo po y None)))
    (enumerate k l) acc w = true ->
  acc w = true \/ exists i, k <= i < k + length l /\ K i w = true.
Proof.
  induction l as [|y l IH]; intros acc k w; cbn [enumerate fold_left length]; [auto|].
  intros Hf. destruct (IH _ _ _ Hf) as [Ha|[i [Hi Hr]]].
  - rewrite bor_spec in Ha. apply orb_true_iff in Ha. destruct Ha as [Ha|Ha]; [auto|].
    right. exists k. split; [lia|]. rewrite band_spec in Ha.
    apply andb_true_iff in Ha. destruct Ha as [Ha _]. unfold mp in Ha.
    rewrite memo_id in Ha. exact Ha.
  - right. exists i. split; [unfold Nat.succ in Hi; lia|exact Hr].
Qed.

(* the "advance to the next goal" disjunction forces c' < number of goals *)
Lemma gfold_hit l : forall (acc : bdd) k w,
  0 < length goals ->
  fold_left (fun acc '(j, goal) =>
      bor acc (band (mp nc nx ny H G (fun v => Nat.eqb (rg H G v) j
                       && Nat.eqb (rgp H G v) ((j + 1) mod length goals))) goal))
    (enumerate k l) acc w = true ->
  acc w = true \/ rgp H G w < length goals.
Proof.
  induction l as [|g l IH]; intros acc k w Hn; cbn [enumerate fold_left]; [auto|].
  intros Hf. destruct (IH _ _ _ Hn Hf) as [Ha|Ha]; [|auto].
  rewrite bor_spec in Ha. apply orb_true_iff in Ha. destruct Ha as [Ha|Ha]; [auto|].
  right. rewrite band_spec in Ha. apply andb_true_iff in Ha. destruct Ha as [Ha _].
  unfold mp in Ha. rewrite memo_id in Ha. apply andb_true_iff in Ha. destruct Ha as [_ Ha].
  apply Nat.eqb_eq in Ha. rewrite Ha. apply Nat.mod_upper_bound. lia.
Qed.

Lemma Rm_advance v : rgp H G v < length goals -> Nat.eqb (rhp H G v) (rh H G v) = true ->
  Rm v = true.
Proof.
  rewrite Nat.eqb_eq. intros H1 H2. unfold Rm. rewrite H2.
  destruct (Nat.leb (rh H G v) nh) eqn:E1, (Nat.leb (rg H G v) ng1) eqn:E2; cbn; try reflexivity.
  apply Nat.leb_le. lia.
Qed.

Theorem rabin_memory_range mo po zk yki xkijr :
  Forall (fun yi => length yi <= nh) yki ->
  forall v, inr v ->
  rabin_action nc nx ny H G E S holds goals mo po zk yki xkijr v = true ->
  (E v = true -> rh H G v <= nh /\ rg H G v <= ng1 /\ rhp H G v <= nh /\ rgp H G v <= ng1) /\
  (po = true -> rh H G v <= nh /\ rg H G v <= ng1).
Proof.
  intros Hlen v Hv. unfold rabin_action, rabin_action_k. cbv beta zeta.
  (* rho_1 *)
  match goal with |- context [fold_left ?f zk ?a] =>
    assert (H1 : SubE (fst (fold_left f zk a))) end.
  { apply (fold_left_inv (fun p : bdd * bdd => SubE (fst p))); [apply SubE_bfalse|].
    intros [r basin] z Hr. cbn [fst]. apply SubE_bor; [exact Hr|]. apply SubE_band_r.
    apply SubE_mp. intros w Hw. apply andb_true_iff in Hw. destruct Hw as [Hg Hh].
    apply (Rm_g_same_h w nh (le_n _) Hg Hh). }
  destruct (fold_left _ zk _) as [rho_1 b1]. cbn [fst] in H1.
  match goal with |- context [fold_left ?f (combine (combine zk yki) xkijr) ?a] =>
    assert (H2 : let p := fold_left f (combine (combine zk yki) xkijr) a in
                 SubE (fst (fst (fst p))) /\ SubE (snd (fst (fst p))) /\ SubE (snd (fst p))) end.
  { apply (fold_left_inv_in (fun p : bdd * bdd * bdd * bdd =>
             SubE (fst (fst (fst p))) /\ SubE (snd (fst (fst p))) /\ SubE (snd (fst p)))).
    - cbn [fst snd]. repeat split; apply SubE_bfalse.
    - intros [[[r2 r3] r4] basin] [[z yi] xijr] Hin [Hr2 [Hr3 Hr4]]. cbn [fst snd].
      pose proof (in_combine_r _ _ _ _ (in_combine_l _ _ _ _ Hin)) as Hyin.
      assert (Hyl : length yi <= nh) by (rewrite Forall_forall in Hlen; apply Hlen, Hyin).
      repeat split.
      + (* rho_2: c' = c, w' = i < length yi *)
        apply SubE_bor; [exact Hr2|].
        intros w Hw Hu He. rewrite band_spec in Hu. apply andb_true_iff in Hu.
        destruct Hu as [Hu Hv2]. rewrite band_spec in Hu. apply andb_true_iff in Hu.
        destruct Hu as [_ Hcnt]. unfold mp in Hcnt. rewrite memo_id in Hcnt.
        apply andb_true_iff in Hcnt. destruct Hcnt as [Hg _].
        destruct (vfold_hit mo po (fun i v => Nat.eqb (rhp H G v) i) yi bfalse 0 w Hv2)
          as [Hf|[i [Hi Hr]]]; [discriminate|].
        apply (Rm_g_same_h w i); [lia|exact Hg|exact Hr].
      + (* rho_3: c' = c, w' = w *)
        apply SubE_bor; [exact Hr3|]. apply SubE_band_l, SubE_band_r.
        apply SubE_mp. intros w Hw. apply andb_true_iff in Hw. destruct Hw as [Hw Hh].
        apply andb_true_iff in Hw. destruct Hw as [Hg _]. apply Rm_same; assumption.
      + (* rho_4: c' = next goal, w' = w *)
        apply SubE_bor; [exact Hr4|]. apply SubE_band_l.
        intros w Hw Hu He.
        apply (ca_env_extra nc nx ny M E S mo po _ _ w Hw) in Hu; [|exact He].
        rewrite !band_spec in Hu. apply andb_true_iff in Hu. destruct Hu as [Hu _].
        apply andb_true_iff in Hu. destruct Hu as [Hgo Hcnt].
        unfold mp in Hcnt. rewrite memo_id in Hcnt. apply andb_true_iff in Hcnt.
        destruct Hcnt as [_ Hh].
        destruct goals as [|g0 gl] eqn:Eg; [cbn in Hgo; discriminate|]. rewrite <- Eg in *.
        assert (Hn : 0 < length goals) by (rewrite Eg; cbn; lia).
        destruct (gfold_hit goals bfalse 0 w Hn Hgo) as [Hf|Hlt]; [discriminate|].
        apply Rm_advance; assumption. }
  destruct (fold_left _ (combine (combine zk yki) xkijr) _) as [[[rho_2 rho_3] rho_4] b2].
  cbn [fst snd] in H2. destruct H2 as [Hr2 [Hr3 Hr4]].
  set (lim := mp nc nx ny H G _).
  set (u0 := band (bor (bor (bor rho_1 rho_2) rho_3) rho_4) lim).
  assert (Hu0 : u0 v = true ->
            (rh H G v <= nh /\ rg H G v <= ng1) /\
            (E v = true -> rhp H G v <= nh /\ rgp H G v <= ng1)).
  { unfold u0. rewrite band_spec, andb_true_iff. intros [Hr Hl].
    unfold lim, mp in Hl. rewrite memo_id in Hl. apply andb_true_iff in Hl.
    destruct Hl as [Hl1 Hl2]. pose proof Hl1 as Hl1'. pose proof Hl2 as Hl2'.
    apply Nat.leb_le in Hl1', Hl2'. split; [auto|]. intros He.
    assert (HR : Rm v = true).
    { assert (HS : SubE (bor (bor (bor rho_1 rho_2) rho_3) rho_4))
        by (repeat apply SubE_bor; assumption).
      apply (HS v Hv Hr He). }
    unfold Rm in HR. rewrite Hl1, Hl2 in HR. cbn in HR.
    apply andb_true_iff in HR. destruct HR as [A B]. apply Nat.leb_le in A, B. auto. }
  destruct po; cbn [negb].
  - intros Hact. destruct (Hu0 Hact) as [Hb Ha]. split; [|auto].
    intros He. destruct (Ha He). tauto.
  - destruct mo.
    + rewrite forall_spec. cbn [forall_raw dom]. rewrite forallb_forall. intros Hact.
      specialize (Hact _ (inr_vxp nc nx ny M v Hv)). rewrite setg_envp_self in Hact.
      rewrite bor_spec, bnot_spec, orb_true_iff in Hact.
      split; [|discriminate]. intros He. destruct Hact as [Hact|Hact]; [|rewrite He in Hact; discriminate].
      destruct (Hu0 Hact) as [Hb Ha]. destruct (Ha He). tauto.
    + rewrite bor_spec, bnot_spec, orb_true_iff. intros Hact.
      split; [|discriminate]. intros He. destruct Hact as [Hact|Hact]; [|rewrite He in Hact; discriminate].
      destruct (Hu0 Hact) as [Hb Ha]. destruct (Ha He). tauto.
Qed.
End RabinC.
