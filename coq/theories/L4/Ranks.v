(* L4 / Ranks: the finite iterates of a monotone operator from the bottom
   element, and the rank of a valuation in a least fixpoint (the index of the
   first iterate that contains it). *)
From Coq Require Import List Bool Arith Lia.
Import ListNotations.
From Omega Require Import L4.Arena L4.ArenaFacts L4.Kleene L4.AlgOrder L4.Mu.

Section Ranks.
Variables nc nx ny : nat.
Local Notation le := (le nc nx ny).
Local Notation eqv := (eqv nc nx ny).
Local Notation mono := (mono nc nx ny).
Local Notation NV := (NV nc nx ny).
Local Notation inr := (inr nc nx ny).
Local Notation loop := (loop nc nx ny).
Local Notation is_lfp := (is_lfp nc nx ny).

Fixpoint it (f : bdd -> bdd) (n : nat) : bdd :=
  match n with 0 => bfalse | S k => f (it f k) end.

Lemma it_step f n : mono f -> le (it f n) (it f (S n)).
Proof.
  intros M. induction n as [|n IH]; cbn [it]; [apply bfalse_le|].
  apply M. exact IH.
Qed.

Lemma it_le f n m : mono f -> n <= m -> le (it f n) (it f m).
Proof.
  intros M H. induction H as [|m H IH]; [apply le_refl|].
  apply le_trans with (it f m); [exact IH|apply it_step, M].
Qed.

Lemma it_below f n r : mono f -> is_lfp f r -> le (it f n) r.
Proof.
  intros M [E _]. induction n as [|n IH]; cbn [it]; [apply bfalse_le|].
  apply le_trans with (f r); [apply M, IH|apply eqv_le, E].
Qed.

(* the loop from a start value returns a (non-zero) iterate *)
Lemma iter_shift {A} (f : A -> A) k q : Nat.iter k f (f q) = f (Nat.iter k f q).
Proof. induction k as [|k IH]; simpl; [reflexivity|]. rewrite IH. reflexivity. Qed.

Lemma loop_iter fuel f : forall q,
  exists k, k <= fuel /\ loop fuel f q = Nat.iter (Datatypes.S k) f q.
Proof.
  induction fuel as [|n IH]; intros q; cbn [Kleene.loop].
  - exists 0. split; [lia|]. destruct (beq nc nx ny (f q) q); reflexivity.
  - destruct (beq nc nx ny (f q) q) eqn:Eb.
    + exists 0. split; [lia|reflexivity].
    + destruct (IH (f q)) as [k [Hle Hk]]. exists (Datatypes.S k). split; [lia|]. rewrite Hk.
      simpl. rewrite iter_shift. reflexivity.
Qed.

Lemma iter_it f k : Nat.iter k f bfalse = it f k.
Proof. induction k as [|k IH]; simpl; [reflexivity|]. rewrite IH. reflexivity. Qed.

Lemma lfp_of_is_iterate f : exists k, k <= NV /\ lfp_of nc nx ny f = it f (Datatypes.S k).
Proof.
  unfold lfp_of. destruct (loop_iter NV f bfalse) as [k [Hle Hk]]. exists k.
  split; [exact Hle|]. rewrite Hk. apply iter_it.
Qed.

(* every member of the least fixpoint enters the chain of iterates *)
Lemma lfp_in_iterate f r v :
  mono f -> is_lfp f r -> inr v -> r v = true ->
  exists n, n <= NV /\ it f (Datatypes.S n) v = true.
Proof.
  intros M Hr Hv Hrv.
  destruct (lfp_of_is_iterate f) as [k [Hle Hk]].
  exists k. split; [exact Hle|]. rewrite <- Hk.
  pose proof (is_lfp_unique nc nx ny f r (lfp_of nc nx ny f) Hr (lfp_of_is_lfp nc nx ny f M)) as Heq.
  rewrite <- (Heq v Hv). exact Hrv.
Qed.

(* rank: the first n with  v in it (S n) ; [bound] iterates are searched *)
Fixpoint first_from (p : nat -> bool) (n k : nat) : nat :=
  match k with
  | 0 => n
  | Datatypes.S k' => if p n then n else first_from p (Datatypes.S n) k'
  end.

Lemma first_from_spec p k : forall n m,
  n <= m -> m < n + k -> p m = true ->
  let r := first_from p n k in
  n <= r /\ r <= m /\ p r = true /\ forall i, n <= i -> i < r -> p i = false.
Proof.
  induction k as [|k IH]; intros n m Hnm Hm Hp; [lia|].
  cbn [first_from]. destruct (p n) eqn:En.
  - split; [lia|]. split; [lia|]. split; [exact En|]. intros i H1 H2. lia.
  - assert (Hne : n <> m) by (intros ->; congruence).
    destruct (IH (Datatypes.S n) m) as [H1 [H2 [H3 H4]]]; try lia; [exact Hp|].
    split; [lia|]. split; [lia|]. split; [exact H3|].
    intros i Hi1 Hi2. destruct (Nat.eq_dec i n) as [->|Hd]; [exact En|].
    apply H4; lia.
Qed.

Definition rank (f : bdd -> bdd) (bound : nat) (v : V) : nat :=
  first_from (fun n => it f (Datatypes.S n) v) 0 bound.

Lemma rank_spec f bound v m :
  m < bound -> it f (Datatypes.S m) v = true ->
  let r := rank f bound v in
  r <= m /\ it f (Datatypes.S r) v = true /\ forall i, i < r -> it f (Datatypes.S i) v = false.
Proof.
  intros Hm Hv.
  pose proof (first_from_spec (fun n => it f (Datatypes.S n) v) bound 0 m
                (Nat.le_0_l m) Hm Hv) as H.
  cbv zeta in H. destruct H as [_ [H2 [H3 H4]]]. cbv zeta. unfold rank.
  split; [exact H2|]. split; [exact H3|]. intros i Hi. apply H4; [lia|exact Hi].
Qed.

(* not in iterate number (rank): the rank is the exact level *)
Lemma rank_not_before f bound v m :
  mono f -> inr v -> m < bound -> it f (Datatypes.S m) v = true ->
  it f (rank f bound v) v = false.
Proof.
  intros M Hv Hm Hmv.
  destruct (rank_spec f bound v m Hm Hmv) as [_ [_ H3]].
  destruct (rank f bound v) as [|r] eqn:Er; [reflexivity|].
  apply H3. lia.
Qed.

(* membership in an iterate bounds the rank *)
Lemma rank_lt f bound v n :
  n < bound -> it f (Datatypes.S n) v = true -> rank f bound v <= n.
Proof. intros Hn Hv. apply (rank_spec f bound v n Hn Hv). Qed.

End Ranks.
