"""C11 — controllable predecessor, attractor, trap, image, descendants."""
import os

from vlib import core, games, gen_games
from vlib.core import Broken, Mismatch, Failing

ID = 'C11'
LEVEL = 'proof'

HEADER = '''From Coq Require Import List Bool Arith.
Import ListNotations.
From Omega Require Import L4.Arena L4.Tables.
From OmegaGen Require Import FixpointGen.
'''


def prove(ctx):
    with ctx.coq_lock():
        gen_games.ensure_fixpoint(ctx)
        ctx.prove_with_deps('Properties/C11.v')
    ctx.trusted.append(
        'translator tie T: omega/symbolic/fixpoint.py -> gen/FixpointGen.v '
        '(step, attractor, trap, ee_image, descendants); preimage() is not '
        'modelled (thin wrapper of dd.bdd.preimage)')


MODES = [(m, p) for m in (False, True) for p in (False, True)]


# the same identifier is a constant in one automaton and a variable in the
# next ones of the same process: nothing may be remembered by identifier name
# across contexts (seeded change C11-9)
ROLE_SWAP = [
    dict(const={'m': (0, 1)}, env={'x': 'bool'}, sys={'y': (0, 1)}),
    dict(const={}, env={'x': 'bool'}, sys={'m': (0, 1)}),
    dict(const={'y': 'bool'}, env={'m': (0, 1)}, sys={'x': 'bool'}),
    dict(const={'x': 'bool'}, env={'y': 'bool'}, sys={'m': (0, 1)}),
]


def make_instance(rng, backend, max_states, decl=None):
    if decl is None:
        decl = games.random_decl(rng, max_states=max_states)
    ar = games.Arena(decl, backend)
    E = games.rand_table2(rng, ar, rng.choice([0.5, 0.7, 0.9]),
                          no_yp=rng.random() < 0.6)
    S = (games.structured_sys_table(rng, ar) if rng.random() < 0.5
         else games.rand_table2(rng, ar, rng.choice([0.3, 0.5, 0.8]),
                                no_xp=rng.random() < 0.3))
    d = rng.choice([0.15, 0.3, 0.5])
    T = games.rand_table1(rng, ar, d)
    safe = games.rand_table1(rng, ar, rng.choice([0.5, 0.8]))
    unless = games.rand_table1(rng, ar, 0.2)
    inside = games.rand_table1(rng, ar, 0.6)
    if rng.random() < 0.5:
        # half of the instances: the target lies inside `inside`; the others
        # exercise the restriction of the target itself (q &= inside)
        inside = [a or b for a, b in zip(T, inside)]
    src = games.rand_table1(rng, ar, 0.2)
    constrain = games.rand_table1(rng, ar, 0.7)
    return dict(decl=decl, backend=backend, E=E, S=S, T=T, safe=safe,
                unless=unless, inside=inside, src=src, constrain=constrain,
                ar=ar)


def run_impl(inst):
    """Run the real fixpoint.py on the instance; returns name -> table."""
    import omega.symbolic.fixpoint as fx
    ar = inst['ar']
    aut = ar.aut
    E, S = ar.bdd2(inst['E']), ar.bdd2(inst['S'])
    T, safe = ar.bdd1(inst['T']), ar.bdd1(inst['safe'])
    unless, inside = ar.bdd1(inst['unless']), ar.bdd1(inst['inside'])
    src, constrain = ar.bdd1(inst['src']), ar.bdd1(inst['constrain'])
    aut.action['env'] = E
    aut.action['sys'] = S
    out = {}
    for moore, plus_one in MODES:
        aut.moore, aut.plus_one = moore, plus_one
        k = (moore, plus_one)
        out[('step',) + k] = ar.table1(fx.step(E, S, T, aut))
        out[('attr',) + k] = ar.table1(fx.attractor(E, S, T, aut))
        out[('attr_in',) + k] = ar.table1(
            fx.attractor(E, S, T, aut, inside=inside))
        out[('trap',) + k] = ar.table1(fx.trap(E, S, safe, aut))
        out[('trap_un',) + k] = ar.table1(
            fx.trap(E, S, safe, aut, unless=unless))
    out[('image',)] = ar.table1(fx.ee_image(src, aut))
    out[('desc_t',)] = ar.table1(fx.descendants(src, constrain, aut))
    out[('desc_f',)] = ar.table1(
        fx.descendants(src, constrain, aut, future=False))
    return out


def coq_group(i, inst, impl):
    ar = inst['ar']
    n = f'{ar.nc} {ar.nx} {ar.ny}'
    fuel = ar.ns * ar.np + 2
    p = f'i{i}_'
    defs = [f'Definition {p}{k} := of_table2 {n} {games.lit2(inst[k])}.'
            for k in ('E', 'S')]
    defs += [f'Definition {p}{k} := of_table1 {n} {games.lit1(inst[k])}.'
             for k in ('T', 'safe', 'unless', 'inside', 'src', 'constrain')]
    terms, keys = [], []

    def add(key, model):
        terms.append(f'eq1 (to_table1 {n} ({model})) {games.lit1(impl[key])}')
        keys.append(key)
    b = lambda x: 'true' if x else 'false'
    for moore, plus_one in MODES:
        m = f'{n} {b(moore)} {b(plus_one)} {fuel}'
        k = (moore, plus_one)
        add(('step',) + k, f'FixpointGen.step {m} {p}E {p}S {p}T')
        add(('attr',) + k, f'FixpointGen.attractor {m} {p}E {p}S {p}T None')
        add(('attr_in',) + k,
            f'FixpointGen.attractor {m} {p}E {p}S {p}T (Some {p}inside)')
        add(('trap',) + k, f'FixpointGen.trap {m} {p}E {p}S {p}safe None')
        add(('trap_un',) + k,
            f'FixpointGen.trap {m} {p}E {p}S {p}safe (Some {p}unless)')
    add(('image',), f'FixpointGen.ee_image {n} {p}S {fuel} {p}src')
    add(('desc_t',),
        f'FixpointGen.descendants {n} {p}S {fuel} {p}src {p}constrain true')
    add(('desc_f',),
        f'FixpointGen.descendants {n} {p}S {fuel} {p}src {p}constrain false')
    return ('\n'.join(defs), terms), keys


def correspond(ctx):
    n_inst = 240 if ctx.thorough else 24
    max_states = 32 if ctx.thorough else 16
    insts, impls = [], []
    sizes = {}
    nontrivial = set()
    for i in range(n_inst):
        backend = 'cudd' if i % 2 else 'autoref'
        k = i // 2
        inst = make_instance(ctx.rng, backend, max_states,
                             decl=ROLE_SWAP[k] if k < len(ROLE_SWAP)
                             else None)
        try:
            impl = run_impl(inst)
        except Exception as e:  # the property says these must succeed
            return [Mismatch('implementation raised', _case(inst),
                             impl=repr(e), property_fails=True)]
        insts.append(inst)
        impls.append(impl)
        ar = inst['ar']
        sizes[ar.ns] = sizes.get(ar.ns, 0) + 1
        for k, t in impl.items():
            if any(t) and not all(t):
                nontrivial.add((i, k))
    groups, allkeys = [], []
    for i, (inst, impl) in enumerate(zip(insts, impls)):
        g, keys = coq_group(i, inst, impl)
        groups.append(g)
        allkeys += [(i, k) for k in keys]
    try:
        res = ctx.eval_groups('corr', HEADER, groups, shard=120)
    except Broken as b:
        if b.tie == 'infra' and not os.path.exists(
                os.path.join(core.COQ, 'gen/FixpointGen.vo')):
            # the model could not be generated; fall back to the search
            return [Mismatch('model unavailable', None)]
        raise
    mism = []
    for (i, k), ok in zip(allkeys, res):
        if not ok:
            mism.append(Mismatch(f'{k[0]} differs from the translated model',
                                 dict(_case(insts[i]), op=list(k)),
                                 impl=impls[i][k]))
    ctx.cov['evaluations'] += len(res)
    ctx.cov['distinct_nontrivial'] += len(nontrivial)
    ctx.cov['rule'] = (
        'random arenas (declarations of 1-2 env and 1-2 sys variables of '
        'Boolean/int kinds in all three hint shapes, optional rigid '
        'constant), random action tables (60% of env actions independent of '
        "y'), random target/safe/unless/inside/source/constraint sets; each "
        'operator in all 4 modes on alternating back ends; compared as truth '
        'tables over ALL bit-range valuations with the translated Gallina '
        'code evaluated by vm_compute. non-trivial = result neither empty '
        'nor full')
    ctx.cov['samples'] = [dict(_case(insts[0]), results={
        str(k): v for k, v in list(impls[0].items())[:3]})]
    ctx.extra['correspondence'] = dict(
        instances=n_inst, comparisons=len(res), mismatches=len(mism),
        states_histogram=sizes, backends=['autoref', 'cudd'])
    # search oracle is always run on a few instances so that its agreement
    # with the implementation is itself exercised
    orc = 0
    for inst, impl in list(zip(insts, impls))[:6]:
        f = oracle_check(inst, impl)
        orc += 1
        if f:
            mism.append(Mismatch('explicit-set oracle disagrees', f.case,
                                 impl=f.got, model=f.expected,
                                 property_fails=True))
    ctx.extra['oracle_crosschecked_instances'] = orc
    return mism


def _case(inst):
    c = {k: inst[k] for k in ('decl', 'backend', 'E', 'S', 'T', 'safe',
                              'unless', 'inside', 'src', 'constrain')}
    if inst['decl'] in ROLE_SWAP:
        # the history is part of the input: automata used before in the
        # same process
        c['preceded_by'] = ROLE_SWAP[:ROLE_SWAP.index(inst['decl'])]
    return c


def _replay_history(case):
    """Use automata with the recorded earlier declarations first (both
    back ends), as the run that found the case did."""
    import random
    rng = random.Random(0)
    for decl in case.get('preceded_by', []):
        for backend in ('autoref', 'cudd'):
            try:
                run_impl(make_instance(rng, backend, 16, decl=decl))
            except Exception:
                pass


# ---------------------------------------------------------------- search
def oracle(inst):
    """Explicit-set evaluation of the property's own definitions."""
    ar = inst['ar']
    E, S = inst['E'], inst['S']
    st = ar.states()
    idx = {s: ar.sidx(*s) for s in st}

    def cpre(Tset, moore, plus_one):
        out = set()
        for (c, x, y) in st:
            s = idx[(c, x, y)]

            def phi(xp, yp):
                j = xp * ar.ny + yp
                t = idx[(c, xp, yp)] in Tset
                if plus_one:
                    return S[s][j] and (not E[s][j] or t)
                return (not E[s][j]) or (S[s][j] and t)
            if moore:
                ok = any(all(phi(xp, yp) for xp in range(ar.nx))
                         for yp in range(ar.ny))
            else:
                ok = all(any(phi(xp, yp) for yp in range(ar.ny))
                         for xp in range(ar.nx))
            if ok:
                out.add(s)
        return out

    def image(src):
        out = set()
        for (c, x, y) in st:
            s = idx[(c, x, y)]
            if s not in src:
                continue
            for xp in range(ar.nx):
                for yp in range(ar.ny):
                    if S[s][xp * ar.ny + yp]:
                        out.add(idx[(c, xp, yp)])
        return out
    full = set(range(ar.ns))
    tos = lambda t: {i for i, b in enumerate(t) if b}
    T, safe, unless = tos(inst['T']), tos(inst['safe']), tos(inst['unless'])
    inside, src, con = (tos(inst['inside']), tos(inst['src']),
                        tos(inst['constrain']))
    res = {}
    for moore, plus_one in MODES:
        k = (moore, plus_one)
        cp = lambda Q: cpre(Q, moore, plus_one)
        res[('step',) + k] = cp(T)
        q = set(T)
        while True:
            q2 = q | cp(q)
            if q2 == q:
                break
            q = q2
        res[('attr',) + k] = q
        q = set(T)
        while True:
            q2 = (q | cp(q)) & inside
            if q2 == q:
                break
            q = q2
        res[('attr_in',) + k] = q
        for name, un in (('trap', set()), ('trap_un', unless)):
            q = set(full)
            while True:
                q2 = (safe & cp(q)) | un
                if q2 == q:
                    break
                q = q2
            res[(name,) + k] = q
    res[('image',)] = image(src)
    for name, q in (('desc_t', image(src)), ('desc_f', set(src))):
        while True:
            q2 = (q | image(q)) & con
            if q2 == q:
                break
            q = q2
        res[(name,)] = q
    return {k: [i in v for i in range(ar.ns)] for k, v in res.items()}


def oracle_check(inst, impl):
    exp = oracle(inst)
    for k, t in exp.items():
        if impl[k] != t:
            ar = inst['ar']
            bad = [i for i in range(ar.ns) if impl[k][i] != t[i]]
            (c, x, y) = ar.states()[bad[0]]
            return Failing(
                f'{k[0]} (moore,plus_one={k[1:]}) wrong at state '
                f'{ar.state_dict(c, x, y)}',
                dict(_case(inst), op=list(k)), expected=t, got=impl[k],
                replay_cmd='./check C11 --replay <this file>')
    return None


def search(ctx, broken, mismatches):
    """Look for a concrete input on which fixpoint.py violates C11."""
    out = []
    # 1. re-examine differing cases with the explicit oracle
    for m in mismatches:
        if m.case is None:
            continue
        inst = dict(m.case)
        try:
            _replay_history(m.case)
            inst['ar'] = games.Arena(inst['decl'], inst['backend'])
            f = oracle_check(inst, run_impl(inst))
        except Exception as e:
            f = Failing('implementation raised ' + repr(e), m.case)
        if f:
            out.append(f)
            return out
    # 2. fresh inputs
    budget = 400 if ctx.thorough else 120
    for i in range(budget):
        inst = make_instance(ctx.rng, 'cudd' if i % 2 else 'autoref', 16)
        try:
            f = oracle_check(inst, run_impl(inst))
        except Exception as e:
            f = Failing('implementation raised ' + repr(e), _case(inst))
        if f:
            out.append(shrink(f, inst))
            break
    return out


def shrink(f, inst):
    return f


def replay(path):
    import json
    d = json.load(open(path))
    case = d.get('input') or d.get('case')
    inst = dict(case)
    try:
        _replay_history(case)
        inst['ar'] = games.Arena(inst['decl'], inst['backend'])
        f = oracle_check(inst, run_impl(inst))
    except Exception as e:
        f = Failing('implementation raised ' + repr(e), case)
    if f:
        print('still fails:', f.what)
        return 1
    print('passes')
    return 0
