"""Formula trees for the C06 checks: rendering to omega's concrete syntax,
to Gallina (`Omega.L2Compile.Expr.expr`), and conversion of the tree that
omega's own parser builds back to this form (harness self-check).

A tree is a tuple:
  ('true',) ('false',) ('num', z) ('var', name) ('op', name)
  ('not', sp, a)            sp in '~' '!'
  ('bin', sp, a, b)         sp a spelling of /\\ \\/ => <=> ^
  ('cmp', sp, a, b)         sp in < <= =< = # != /= >= >
  ('arith', op, a, b)       op in + - * / %
  ('in', a, lo, hi)
  ('ite', style, c, a, b)   style in 'ite' 'IF'
  ('let', [(name, d), ...], body)
  ('prime', style, a)       style in "'" 'X'
  ('quant', 'A'|'E', [(name, primed), ...], body)
"""
from vlib import coqlit

BIN_CLASS = {'/\\': 'BAnd', '&': 'BAnd', '&&': 'BAnd',
             '\\/': 'BOr', '|': 'BOr', '||': 'BOr',
             '=>': 'BImp', '->': 'BImp',
             '<=>': 'BIff', '<->': 'BIff',
             '^': 'BXor'}
CMP_CLASS = {'<': 'CLt', '<=': 'CLe', '=<': 'CLe', '=': 'CEq',
             '#': 'CNe', '!=': 'CNe', '/=': 'CNe', '>=': 'CGe', '>': 'CGt'}
ARITH_CLASS = {'+': 'AAdd', '-': 'ASub', '*': 'AMul', '/': 'ADiv',
               '%': 'AMod'}
# spellings after the lexer's normalisation (lexyacc.Lexer.t_AND ...)
BIN_NORMAL = {'BAnd': '/\\', 'BOr': '\\/', 'BImp': '=>', 'BIff': '<=>',
              'BXor': '^'}


def render(e):
    """Concrete syntax, fully parenthesised."""
    k = e[0]
    if k == 'true':
        return 'TRUE'
    if k == 'false':
        return 'FALSE'
    if k == 'num':
        return str(e[1])
    if k in ('var', 'op'):
        return e[1]
    if k == 'not':
        return f'({e[1]} {render(e[2])})'
    if k in ('bin', 'cmp', 'arith'):
        return f'({render(e[2])} {e[1]} {render(e[3])})'
    if k == 'in':
        return f'({render(e[1])} \\in {e[2]}..{e[3]})'
    if k == 'ite':
        c, a, b = (render(x) for x in e[2:5])
        if e[1] == 'ite':
            return f'ite({c}, {a}, {b})'
        return f'(IF {c} THEN {a} ELSE {b})'
    if k == 'let':
        ds = ' '.join(f'{n} == {render(d)}' for n, d in e[1])
        return f'(LET {ds} IN {render(e[2])})'
    if k == 'prime':
        if e[1] == 'X':
            return f'(X {render(e[2])})'
        return f"{render(e[2])}'" if e[2][0] in ('var', 'op') \
            else f"({render(e[2])})'"
    if k == 'quant':
        vs = ', '.join(n + ("'" if p else '') for n, p in e[2])
        return f'(\\{e[1]} {vs}: {render(e[3])})'
    raise ValueError(e)


class Names:
    """Numbering of declared variables and of defined operator names."""

    def __init__(self, decl):
        self.var = {n: i for i, n in enumerate(decl)}
        self.op = {}

    def opid(self, name):
        if name not in self.op:
            self.op[name] = len(self.op)
        return self.op[name]


def to_coq(e, names):
    k = e[0]
    r = lambda x: to_coq(x, names)
    if k == 'true':
        return 'ETrue'
    if k == 'false':
        return 'EFalse'
    if k == 'num':
        return f'(ENum {coqlit.z(e[1])})'
    if k == 'var':
        return f'(EVar {names.var[e[1]]})'
    if k == 'op':
        return f'(EOp {names.opid(e[1])})'
    if k == 'not':
        return f'(ENot {r(e[2])})'
    if k == 'bin':
        return f'(EBin {BIN_CLASS[e[1]]} {r(e[2])} {r(e[3])})'
    if k == 'cmp':
        return f'(ECmp {CMP_CLASS[e[1]]} {r(e[2])} {r(e[3])})'
    if k == 'arith':
        return f'(EArith {ARITH_CLASS[e[1]]} {r(e[2])} {r(e[3])})'
    if k == 'in':
        return f'(EIn {r(e[1])} {coqlit.z(e[2])} {coqlit.z(e[3])})'
    if k == 'ite':
        return f'(EIte {r(e[2])} {r(e[3])} {r(e[4])})'
    if k == 'let':
        body = r(e[2])
        for n, d in reversed(e[1]):
            body = f'(ELet {names.opid(n)} {r(d)} {body})'
        return body
    if k == 'prime':
        return f'(EPrime {r(e[2])})'
    if k == 'quant':
        body = r(e[3])
        fa = 'true' if e[1] == 'A' else 'false'
        for n, p in reversed(e[2]):
            body = (f'(EQuant {fa} {names.var[n]} '
                    f'{"true" if p else "false"} {body})')
        return body
    raise ValueError(e)


def with_defs(defs, e):
    """Registered definitions are an outer LET (one name at a time)."""
    return ('let', list(defs), e) if defs else e


def coq_table(decl):
    """decl: ordered dict name -> 'bool' | (lo, hi)."""
    items = []
    for n, h in decl.items():
        if h == 'bool':
            items.append('TBool')
        else:
            items.append(f'(TInt {coqlit.z(h[0])} {coqlit.z(h[1])})')
    return '[' + '; '.join(items) + ']'


def coq_slots(slots, names):
    return '[' + '; '.join(
        f'({names.var[n]}%nat, {"true" if p else "false"})'
        for n, p in slots) + ']'


def free_slots(e, decl, defs=None, prime=False, bound=frozenset()):
    """(variable, primed) copies the formula reads, macro-expanding
    definitions as the translator does.  Returned in a canonical order."""
    out = set()
    defs = dict(defs or {})

    def go(e, defs, prime, bound):
        k = e[0]
        if k in ('true', 'false', 'num'):
            return
        if k == 'var':
            if (e[1], prime) not in bound and e[1] in decl:
                out.add((e[1], prime))
        elif k == 'op':
            if e[1] in defs:
                d, denv = defs[e[1]]
                go(d, denv, prime, bound)
        elif k == 'not':
            go(e[2], defs, prime, bound)
        elif k in ('bin', 'cmp', 'arith'):
            go(e[2], defs, prime, bound)
            go(e[3], defs, prime, bound)
        elif k == 'in':
            go(e[1], defs, prime, bound)
        elif k == 'ite':
            for x in e[2:5]:
                go(x, defs, prime, bound)
        elif k == 'let':
            env = dict(defs)
            for n, d in e[1]:
                env[n] = (d, dict(env))
            go(e[2], env, prime, bound)
        elif k == 'prime':
            go(e[2], defs, True, bound)
        elif k == 'quant':
            b = set(bound)
            for n, p in e[2]:
                b.add((n, prime or p))
            go(e[3], defs, prime, frozenset(b))
        else:
            raise ValueError(e)
    go(e, {}, prime, bound)
    order = list(decl)
    return sorted(out, key=lambda s: (order.index(s[0]), s[1]))


def size(e):
    return 1 + sum(size(x) for x in e[1:] if isinstance(x, tuple)) + (
        sum(size(d) for _, d in e[1]) if e[0] == 'let' else 0)


def depth(e):
    subs = [x for x in e[1:] if isinstance(x, tuple)]
    if e[0] == 'let':
        subs += [d for _, d in e[1]]
    return 1 + max([depth(x) for x in subs], default=0)


def operators(e, acc=None):
    """Multiset of operator spellings used (coverage accounting)."""
    acc = {} if acc is None else acc
    k = e[0]
    key = {'not': lambda: e[1], 'bin': lambda: e[1], 'cmp': lambda: e[1],
           'arith': lambda: e[1], 'in': lambda: '\\in',
           'ite': lambda: e[1], 'let': lambda: 'LET',
           'prime': lambda: e[1], 'quant': lambda: '\\' + e[1]}.get(k)
    if key:
        acc[key()] = acc.get(key(), 0) + 1
    for x in e[1:]:
        if isinstance(x, tuple):
            operators(x, acc)
    if k == 'let':
        for _, d in e[1]:
            operators(d, acc)
    return acc


# --------------------------------------------------------------------------
def from_omega_tree(u):
    """Tree built by omega.logic.lexyacc (any Nodes) -> this module's form,
    with spellings normalised as the lexer does.  Used to check that the
    string handed to the library parses to the tree the model is given."""
    t = getattr(u, 'type', None)
    if t == 'var':
        return ('var', u.value)
    if t == 'num':
        return ('num', int(u.value))
    if t == 'bool':
        return ('true',) if u.value.lower() == 'true' else ('false',)
    op = u.operator
    xs = u.operands
    if op == '~':
        return ('not', '~', from_omega_tree(xs[0]))
    if op in ('X',):
        return ('prime', "'", from_omega_tree(xs[0]))
    if op in BIN_CLASS:
        return ('bin', op, from_omega_tree(xs[0]), from_omega_tree(xs[1]))
    if op in CMP_CLASS:
        return ('cmp', op, from_omega_tree(xs[0]), from_omega_tree(xs[1]))
    if op in ARITH_CLASS:
        return ('arith', op, from_omega_tree(xs[0]), from_omega_tree(xs[1]))
    if op == '\\in':
        rng = xs[1]
        return ('in', from_omega_tree(xs[0]), int(rng.operands[0].value),
                int(rng.operands[1].value))
    if op == 'ite':
        return ('ite', 'ite') + tuple(from_omega_tree(x) for x in xs)
    if op == 'LET':
        ds = [(d.operands[0].value, from_omega_tree(d.operands[1]))
              for d in xs[0]]
        return ('let', ds, from_omega_tree(xs[1]))
    if op in ('\\A', '\\E'):
        vs = []
        for v in xs[0].operands:
            if getattr(v, 'type', None) == 'var':
                vs.append((v.value, False))
            else:
                vs.append((v.operands[0].value, True))
        return ('quant', op[1], vs, from_omega_tree(xs[1]))
    raise ValueError(f'unexpected node {op}')


def normalise(e, opnames=frozenset()):
    """Forget spelling/style choices (for comparison with the parsed tree).
    omega's parser cannot tell a variable from a defined name."""
    k = e[0]
    n = lambda x: normalise(x, opnames)
    if k in ('true', 'false', 'num'):
        return e
    if k in ('var', 'op'):
        return ('var', e[1])
    if k == 'not':
        return ('not', '~', n(e[2]))
    if k == 'bin':
        return ('bin', BIN_NORMAL[BIN_CLASS[e[1]]], n(e[2]), n(e[3]))
    if k in ('cmp', 'arith'):
        return (k, e[1], n(e[2]), n(e[3]))
    if k == 'in':
        return ('in', n(e[1]), e[2], e[3])
    if k == 'ite':
        return ('ite', 'ite', n(e[2]), n(e[3]), n(e[4]))
    if k == 'let':
        return ('let', [(a, n(d)) for a, d in e[1]], n(e[2]))
    if k == 'prime':
        return ('prime', "'", n(e[2]))
    if k == 'quant':
        return ('quant', e[1], [tuple(v) for v in e[2]], n(e[3]))
    raise ValueError(e)


def to_json(e):
    if isinstance(e, tuple):
        return [to_json(x) for x in e]
    if isinstance(e, list):
        return [to_json(x) for x in e]
    return e


def from_json(e):
    """Inverse of to_json for trees."""
    if not isinstance(e, list):
        return e
    k = e[0]
    if k == 'let':
        return ('let', [(n, from_json(d)) for n, d in e[1]], from_json(e[2]))
    if k == 'quant':
        return ('quant', e[1], [(n, bool(p)) for n, p in e[2]],
                from_json(e[3]))
    return tuple(from_json(x) for x in e)
