"""Python values -> Gallina literals."""


def b(x):
    return 'true' if x else 'false'


def z(n):
    return f'({n})%Z' if n < 0 else f'{n}%Z'


def nat(n):
    assert 0 <= n < 5000, n
    return f'{n}%nat'


def lst(xs, f=str):
    return '[' + '; '.join(f(x) for x in xs) + ']'


def bools(xs):
    return lst(xs, b)


def zs(xs):
    return lst(xs, z)


def opt(x, f=str):
    return 'None' if x is None else f'(Some {f(x)})'


def pair(a, c):
    return f'({a}, {c})'
