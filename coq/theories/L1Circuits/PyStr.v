(* L1p / PyStr: Python strings, dictionaries and integer/string conversions
   that tools/py2coq_bitvector.py targets for the LEAF layer of
   omega/logic/bitvector.py (numerals, variables, Boolean constants):

     str                          string
     list of str                  list string
     dict with str keys           association list, first binding wins
     a symbol-table entry         hint (the keys the bit-blaster reads)
     **kw of flatten              kwargs (prime, t, defs; mem travels apart)

   [py_token] is the one place where a Python string that is a single token
   of prefix syntax becomes a formula: "0" / "1" are the constants, any other
   token without blanks is the bit variable numbered by [var_id].
   No proofs here (see PyStrProofs.v). *)
From Coq Require Import String Ascii ZArith List Bool.
From Omega Require Import L1Circuits.Circuits L1Circuits.Deep L1Circuits.PyBits.
Import ListNotations.
Open Scope Z_scope.

(* int.bit_length() *)
Definition py_bit_length (x : Z) : Z :=
  match x with
  | Z0 => 0
  | Zpos p | Zneg p => Zpos (Pos.size p)
  end.

(* b ** e for ints: a negative exponent leaves the integers *)
Definition py_pow (b e : Z) : option Z :=
  if e <? 0 then None else Some (b ^ e).

(* sum(l) *)
Definition py_sum (l : list Z) : Z := fold_right Z.add 0 l.

(* bin(y) *)
Fixpoint pos_digits (p : positive) (acc : string) : string :=
  match p with
  | xH => String "1" acc
  | xO q => pos_digits q (String "0" acc)
  | xI q => pos_digits q (String "1" acc)
  end.
Definition py_bin (y : Z) : string :=
  match y with
  | Z0 => "0b0"
  | Zpos p => "0b" ++ pos_digits p ""
  | Zneg p => "-0b" ++ pos_digits p ""
  end.

Fixpoint mem_ascii (c : ascii) (s : string) : bool :=
  match s with
  | EmptyString => false
  | String d r => Ascii.eqb c d || mem_ascii c r
  end.

(* s.lstrip(chars) *)
Fixpoint py_lstrip (chars s : string) : string :=
  match s with
  | EmptyString => EmptyString
  | String c r => if mem_ascii c chars then py_lstrip chars r else s
  end.

Fixpoint zeros (n : nat) : string :=
  match n with O => EmptyString | S k => String "0" (zeros k) end.

(* s.zfill(m): zeros after a leading sign *)
Definition py_zfill (m : Z) (s : string) : string :=
  let pad := zeros (Z.to_nat (m - Z.of_nat (String.length s))) in
  match s with
  | String c r => if Ascii.eqb c "+" || Ascii.eqb c "-"
                  then String c (pad ++ r) else pad ++ s
  | EmptyString => pad
  end.

(* list(s): the one-character strings *)
Fixpoint py_chars (s : string) : list string :=
  match s with
  | EmptyString => []
  | String c r => String c EmptyString :: py_chars r
  end.

Definition digit_of_char (c : ascii) : option Z :=
  let n := nat_of_ascii c in
  if Nat.leb 48 n && Nat.leb n 57 then Some (Z.of_nat (n - 48)) else None.

(* decimal digits, most significant first *)
Fixpoint digits_value (s : string) (acc : Z) : option Z :=
  match s with
  | EmptyString => Some acc
  | String c r => match digit_of_char c with
                  | Some d => digits_value r (10 * acc + d)
                  | None => None
                  end
  end.

(* int(s) for the numerals the lexer produces: an optional "-" and decimal
   digits (anything else: ValueError) *)
Definition py_int (s : string) : option Z :=
  match s with
  | EmptyString => None
  | String "-" EmptyString => None
  | String "-" r => option_map Z.opp (digits_value r 0)
  | _ => digits_value s 0
  end.

(* s.lower() *)
Definition lower_ascii (c : ascii) : ascii :=
  let n := nat_of_ascii c in
  if Nat.leb 65 n && Nat.leb n 90 then ascii_of_nat (n + 32) else c.
Fixpoint py_lower (s : string) : string :=
  match s with
  | EmptyString => EmptyString
  | String c r => String (lower_ascii c) (py_lower r)
  end.

(* s[0].isdigit() *)
Definition py_first_isdigit (s : string) : option bool :=
  match s with
  | EmptyString => None
  | String c _ => Some (match digit_of_char c with Some _ => true | None => false end)
  end.

(* s.rsplit(sep, 1)[0] for a one-character sep: the text before the LAST
   occurrence of sep, or all of s *)
Fixpoint has_char (c : ascii) (s : string) : bool :=
  match s with
  | EmptyString => false
  | String d r => Ascii.eqb c d || has_char c r
  end.
Fixpoint py_rsplit1_head (sep : ascii) (s : string) : string :=
  match s with
  | EmptyString => EmptyString
  | String c r =>
      if Ascii.eqb c sep && negb (has_char sep r) then EmptyString
      else String c (py_rsplit1_head sep r)
  end.
Definition py_rsplit1 (sep : ascii) (s : string) : string :=
  if has_char sep s then py_rsplit1_head sep s else s.

(* dictionaries *)
Fixpoint dict_get {B} (d : list (string * B)) (k : string) : option B :=
  match d with
  | [] => None
  | (k', v) :: r => if String.eqb k k' then Some v else dict_get r k
  end.
Definition dict_mem {B} (d : list (string * B)) (k : string) : bool :=
  match dict_get d k with Some _ => true | None => false end.

Definition str_mem (s : string) (l : list string) : bool := existsb (String.eqb s) l.

(* the keys of a symbol-table entry that the bit-blaster reads *)
Record hint := mkHint {
  h_type : string;                       (* d['type'] *)
  h_bitnames : option (list string);     (* d['bitnames'] *)
  h_signed : option bool;                (* d['signed'] *)
  h_dom : option (Z * Z) }.              (* d['dom'] *)
Definition table := list (string * hint).

(* **kw of the flatten methods without mem: the named parameters that some
   method takes out of it; D = the type of `defs` *)
Record kwargs (D : Type) := mkKw {
  k_prime : option bool;
  k_t : option table;
  k_defs : option D }.
Arguments mkKw {D}. Arguments k_prime {D}. Arguments k_t {D}. Arguments k_defs {D}.
Definition kw_set_prime {D} (kw : kwargs D) : kwargs D :=
  mkKw (Some true) (k_t kw) (k_defs kw).

(* truth value of prime (None / False / True) *)
Definition py_truth (p : option bool) : bool :=
  match p with Some true => true | _ => false end.

(* a string that is one token of prefix syntax, as a formula *)
Definition has_blank (s : string) : bool := has_char " " s.
Definition py_token (var_id : string -> nat) (s : string) : option bx :=
  if String.eqb s "" || has_blank s then None
  else if String.eqb s "0" then Some (XC false)
  else if String.eqb s "1" then Some (XC true)
  else Some (XV (var_id s)).
