(* L6 Syntax — the Boolean table checks mean what they should. *)
From Coq Require Import List String NArith Bool Lia.
From Omega Require Import L6Syntax.Tokens L6Syntax.Lexer L6Syntax.Parser
  L6Syntax.TableChecks.
Import ListNotations.
Local Open Scope string_scope.
Local Open Scope N_scope.

Section Lift.
Variable rules : list lexrule.
Variable reserved values : list (string * string).
Variable ignore : list N.
Variable code_prec doc_prec : list (assoc * list string).
Variable prods : list production.

Local Notation doc_tok_type := (doc_tok_type rules reserved values ignore).
Local Notation code_entry := (code_entry rules reserved values ignore code_prec).
Local Notation doc_flat := (doc_flat doc_prec).

(* every documented token is delivered by the lexer as an operator/keyword *)
Lemma check_spelling_sound : forall toks,
  check_spelling rules reserved values ignore toks = true ->
  forall d, In d toks -> exists ty, doc_tok_type d = Some ty.
Proof.
  intros toks H d Hd. unfold check_spelling in H. rewrite forallb_forall in H.
  specialize (H d Hd). destruct (doc_tok_type d) as [ty|]; [eauto | discriminate].
Qed.

(* for every two documented tokens: both have a precedence in the code's
   tuple, and their documented levels compare as their levels in the tuple *)
Lemma check_order_sound :
  check_order rules reserved values ignore code_prec doc_prec = true ->
  forall i a1 d1 j a2 d2,
    In (i, a1, d1) doc_flat -> In (j, a2, d2) doc_flat ->
    exists b1 c1 b2 c2,
      code_entry d1 = Some (b1, c1) /\ code_entry d2 = Some (b2, c2) /\
      c1 <> 0 /\ c2 <> 0 /\
      (i < j <-> c1 < c2) /\ (i = j <-> c1 = c2).
Proof.
  intros H i a1 d1 j a2 d2 H1 H2. unfold check_order in H.
  rewrite forallb_forall in H. specialize (H _ H1). rewrite forallb_forall in H.
  specialize (H _ H2). unfold pair_ok in H. simpl in H.
  destruct (code_entry d1) as [[b1 c1]|]; [|discriminate].
  destruct (code_entry d2) as [[b2 c2]|]; [|discriminate].
  exists b1, c1, b2, c2.
  apply andb_prop in H. destruct H as [H H3]. apply andb_prop in H. destruct H as [Hz1 Hz2].
  apply negb_true_iff, N.eqb_neq in Hz1. apply negb_true_iff, N.eqb_neq in Hz2.
  repeat split; auto;
    destruct (N.compare_spec i j), (N.compare_spec c1 c2); try discriminate; try lia.
Qed.

(* the documented associativity is the one of the code's tuple *)
Lemma check_assoc_sound :
  check_assoc rules reserved values ignore code_prec doc_prec = true ->
  forall i a d, In (i, a, d) doc_flat ->
    exists c, code_entry d = Some (a, c).
Proof.
  intros H i a d Hd. unfold check_assoc in H. rewrite forallb_forall in H.
  specialize (H _ Hd). unfold assoc_ok in H. simpl in H.
  destruct (code_entry d) as [[b c]|]; [|discriminate].
  exists c. destruct b, a; simpl in H; try discriminate; reflexivity.
Qed.

End Lift.
