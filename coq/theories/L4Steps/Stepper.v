(* L4Steps / Stepper: `steps.AutomatonStepper` over an action given by
   meaning.

   An automaton declares identifiers (unprimed and primed ones are separate
   entries, "x" and "x'") each with the list of values representable in its
   bits.  A predicate ("BDD") is a Boolean function of a valuation
   [val = string -> Z]; actions coming from the real code are truth tables
   ([tbl], nested by declaration order) read by [eval_tbl].

   The dd-level operations the stepper uses are modelled by meaning:
     `aut.let(state, u)`       [let_]      cofactor by the state
     `aut.support(u)`          [support]   identifiers the function depends on
     `aut.pick(u, care_vars)`  [pick (candidates ...)] where [pick] is a
        section variable of which the theorems assume only
        pick l = Some a -> In a l  and  pick l = None -> l = [].

   No proofs here (see StepperProofs.v). *)
From Coq Require Import List Bool String Ascii ZArith.
From Omega Require Import L4Steps.Mangle.
Import ListNotations.
Open Scope string_scope.

Definition val := string -> Z.
Definition pred := val -> bool.
Definition decls := list (string * list Z).

Definition names (ds : decls) : list string := map fst ds.

Definition upd (v : val) (x : string) (z : Z) : val :=
  fun y => if String.eqb y x then z else v y.

(* the valuation [v] with the entries of dictionary [d] substituted *)
Definition override (v : val) (d : dict) : val :=
  fun y => match lookup y d with Some z => z | None => v y end.

(* a valuation inside every declared range: first representable value *)
Fixpoint dflt (ds : decls) : val :=
  match ds with
  | [] => fun _ => 0%Z
  | (x, dom) :: ds' =>
      fun y => if String.eqb y x then hd 0%Z dom else dflt ds' y
  end.

(* --- truth tables ------------------------------------------------------ *)
Inductive tbl := Leaf (b : bool) | Node (ts : list tbl).

Fixpoint branch (z : Z) (dom : list Z) (ts : list tbl) : option tbl :=
  match dom, ts with
  | d :: dom', t :: ts' => if Z.eqb z d then Some t else branch z dom' ts'
  | _, _ => None
  end.

Fixpoint eval_tbl (ds : decls) (t : tbl) (v : val) : bool :=
  match ds, t with
  | [], Leaf b => b
  | (x, dom) :: ds', Node ts =>
      match branch (v x) dom ts with
      | Some t' => eval_tbl ds' t' v
      | None => false
      end
  | _, _ => false
  end.

(* --- priming ----------------------------------------------------------- *)
Definition prime (x : string) : string := x ++ "'".

Fixpoint is_primed (k : string) : bool :=
  match k with
  | EmptyString => false
  | String c EmptyString => Ascii.eqb c "'"%char
  | String _ k' => is_primed k'
  end.

(* `stx.unprime`: drop the final quote; the code asserts there is one and
   that the remainder is not primed again *)
Fixpoint drop_last (k : string) : string :=
  match k with
  | EmptyString => EmptyString
  | String _ EmptyString => EmptyString
  | String c k' => String c (drop_last k')
  end.

Definition unprime (k : string) : option string :=
  if is_primed k then
    let s := drop_last k in
    if is_primed s then None else Some s
  else None.

(* `_unprime_state`: `{stx.unprime(k): v for k, v in primed_state.items()}` *)
Fixpoint unprime_acc (p : dict) (acc : dict) : res dict :=
  match p with
  | [] => Ok acc
  | (k, z) :: p' =>
      match unprime k with
      | None => Err BadKey
      | Some s => unprime_acc p' (dset s z acc)
      end
  end.

Definition unprime_state (p : dict) : res dict := unprime_acc p [].

Definition prime_dict (r : dict) : dict :=
  map (fun kv => (prime (fst kv), snd kv)) r.

(* --- enumeration, support, cofactor ------------------------------------ *)
(* all dictionaries over the identifiers [ds], values inside the ranges *)
Fixpoint dicts (ds : decls) : list dict :=
  match ds with
  | [] => [[]]
  | (x, dom) :: ds' =>
      flat_map (fun z => map (cons (x, z)) (dicts ds')) dom
  end.

Definition depends (ds : decls) (u : pred) (x : string) (dom : list Z) : bool :=
  existsb (fun d =>
    let v := override (dflt ds) d in
    existsb (fun a => xorb (u (upd v x a)) (u v)) dom) (dicts ds).

Definition support (ds : decls) (u : pred) : list string :=
  names (filter (fun xd => depends ds u (fst xd) (snd xd)) ds).

Definition let_ (state : dict) (u : pred) : pred :=
  fun v => u (override v state).

Definition restrict_decls (ds : decls) (xs : list string) : decls :=
  filter (fun xd => mem (fst xd) xs) ds.

Definition free_decls (ds : decls) (state : dict) : decls :=
  filter (fun xd => negb (mem (fst xd) (keys state))) ds.

(* satisfying assignments of [u] over the identifiers [vrs] *)
Definition candidates (ds vrs : decls) (u : pred) : list dict :=
  filter (fun p => u (override (dflt ds) p)) (dicts vrs).

Record automaton := {
  a_decls : decls;          (* `aut.vars`, with representable values *)
  a_init : pred;            (* `aut.init['impl']` *)
  a_action : pred;          (* `aut.action['impl']` *)
  a_impl : list string      (* `aut.varlist['impl']` *)
}.

Section Stepper.
Variable pick : list dict -> option dict.

(* `AutomatonStepper.step`; [supp] is `support(action)` (computed once per
   automaton in the case files, see [step]) *)
Definition step_core (A : automaton) (supp : list string) (state : dict)
    : res dict :=
  let ds := a_decls A in
  (* _assert_support_assigned *)
  if negb (forallb (fun x => is_primed x || mem x (keys state)) supp)
  then Err Missing
  (* `assert var in table` of _refine_assignment *)
  else if negb (forallb (fun k => mem k (names ds)) (keys state))
  then Err BadKey
  else
    let u := let_ state (a_action A) in
    let free := free_decls ds state in
    let vrs := restrict_decls ds
                 (support free u ++ map prime (a_impl A))%list in
    match pick (candidates ds vrs u) with
    | None => Err Disabled
    | Some p => unprime_state p
    end.

Definition step (A : automaton) (state : dict) : res dict :=
  step_core A (support (a_decls A) (a_action A)) state.

(* `AutomatonStepper.init`: `pick(init)` ranges over `support(init)`, the
   result is restricted to the implementation variables; `pick` returning
   `None` makes `.items()` raise *)
Definition init_core (A : automaton) (supp : list string) : res dict :=
  let ds := a_decls A in
  match pick (candidates ds (restrict_decls ds supp) (a_init A)) with
  | None => Err Disabled
  | Some p => Ok (filter (fun kv => mem (fst kv) (a_impl A)) p)
  end.

Definition init (A : automaton) : res dict :=
  init_core A (support (a_decls A) (a_init A)).
End Stepper.

(* the choice function used by the correspondence check: prefer the
   assignment the real code returned *)
Definition pick_to (r : dict) (l : list dict) : option dict :=
  match find (fun p => res_dict_eqb (unprime_state p) (Ok r)) l with
  | Some p => Some p
  | None => hd_error l
  end.

Definition pick_init_to (impl : list string) (r : dict) (l : list dict)
    : option dict :=
  match find (fun p =>
          dict_eqb (filter (fun kv => mem (fst kv) impl) p) r) l with
  | Some p => Some p
  | None => hd_error l
  end.
