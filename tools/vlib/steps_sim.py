"""Helpers of the C19 check: build steppers on the real omega, log what
they do, write the same objects as Gallina literals.

Everything that touches omega is in functions that take the freshly imported
modules from the caller's interpreter (PYTHONPATH decides which tree).
"""
import contextlib
import io
import itertools
import logging

logging.disable(logging.CRITICAL)

import omega.games.gr1 as gr1  # noqa: E402
import omega.steps as steps  # noqa: E402
import omega.symbolic.temporal as trl  # noqa: E402

from vlib import games  # noqa: E402


# --------------------------------------------------------------- literals
def qs(s):
    """Coq string literal."""
    assert '"' not in s, s
    return '"' + s + '"'


def zlit(v):
    v = int(v)      # False/True -> 0/1 as in Python's own dict equality
    return f'({v})%Z' if v < 0 else f'{v}%Z'


def dict_lit(d):
    return '[' + '; '.join(f'({qs(k)}, {zlit(v)})' for k, v in d.items()) + ']'


def strs_lit(xs):
    return '[' + '; '.join(qs(x) for x in xs) + ']'


def res_lit(r):
    """r: ('ok', dict) | ('err', 'Collision'|'Disabled'|...)."""
    if r[0] == 'ok':
        return f'(Ok {dict_lit(r[1])})'
    return f'(Err {r[1]})'


def decls_lit(ds):
    return '[' + ';\n  '.join(
        f'({qs(n)}, [' + '; '.join(zlit(v) for v in vals) + '])'
        for n, vals in ds) + ']'


def tbl_lit(ds, flat):
    """Nested table literal from the flat truth table (row-major in ds)."""
    sizes = [len(v) for _, v in ds]

    def rec(level, off, stride):
        if level == len(sizes):
            return 'T' if flat[off] else 'F'
        stride //= sizes[level]
        return 'Node [' + ';'.join(
            rec(level + 1, off + i * stride, stride)
            for i in range(sizes[level])) + ']'
    total = 1
    for s in sizes:
        total *= s
    assert total == len(flat), (total, len(flat))
    return rec(0, 0, total)


# ------------------------------------------------------------ bit level
def var_bits(aut, name):
    d = aut.vars[name]
    if d['type'] == 'bool':
        return [name]
    return list(d['bitnames'])


def bits_of_value(aut, name, val):
    d = aut.vars[name]
    if d['type'] == 'bool':
        return {name: bool(val)}
    w = d['width']
    u = val % (2 ** w)
    return {b: bool((u >> i) & 1) for i, b in enumerate(d['bitnames'])}


def make_decls(aut, names):
    """[(identifier, representable values)] in the given order."""
    return [(n, games.var_values(aut.vars[n])) for n in names]


def truth_table(aut, u, ds):
    """Flat truth table of BDD u over the identifiers ds (row-major).

    Own two's-complement decoding at the bit level of dd (not omega's)."""
    bdd = aut.bdd
    allbits = []
    keymaps = []
    for n, vals in ds:
        bits = var_bits(aut, n)
        allbits += bits
        m = {}
        for i, v in enumerate(vals):
            b = bits_of_value(aut, n, v)
            m[tuple(b[x] for x in bits)] = i
        assert len(m) == len(vals) == 2 ** len(bits), (n, vals, bits)
        keymaps.append((bits, m))
    sup = bdd.support(u)
    assert set(sup) <= set(allbits), (sup, allbits)
    total = 1
    for _, vals in ds:
        total *= len(vals)
    flat = [False] * total
    for a in bdd.pick_iter(u, care_vars=allbits):
        idx = 0
        for (bits, m), (_, vals) in zip(keymaps, ds):
            idx = idx * len(vals) + m[tuple(bool(a[x]) for x in bits)]
        flat[idx] = True
    return flat


# ------------------------------------------------------- real automata
def all_names(aut, ar_names):
    """Unprimed identifiers then the primed copies of the variables."""
    unprimed = list(ar_names['const']) + list(ar_names['env']) + \
        list(ar_names['impl'])
    primed = [n + "'" for n in list(ar_names['env']) + list(ar_names['impl'])]
    return unprimed + primed


def build_streett(rng, backend, max_states=16):
    """A realizable random Streett(1) game with its synthesized transducer.

    Returns dict(aut, names, mode) or None if the sampled game is not
    realizable."""
    decl = games.random_decl(rng, max_states=max_states,
                             allow_const=rng.random() < 0.5)
    ar = games.Arena(decl, backend)
    aut = ar.aut
    moore = rng.random() < 0.7
    plus_one = rng.random() < 0.5
    aut.moore, aut.plus_one = moore, plus_one
    E = games.rand_table2(rng, ar, rng.choice([0.6, 0.8, 0.95]), no_yp=True)
    S = (games.structured_sys_table(rng, ar) if rng.random() < 0.5
         else games.rand_table2(rng, ar, rng.choice([0.5, 0.8]),
                                no_xp=moore or rng.random() < 0.5))
    aut.action['env'] = ar.bdd2(E)
    aut.action['sys'] = ar.bdd2(S)
    ng = rng.choice([1, 1, 2, 3])
    nh = rng.choice([1, 1, 2])
    aut.win['[]<>'] = [ar.bdd1(games.rand_table1(rng, ar, 0.5))
                       for _ in range(ng)]
    aut.win['<>[]'] = [ar.bdd1(games.rand_table1(rng, ar, 0.15))
                       for _ in range(nh)]
    with contextlib.redirect_stdout(io.StringIO()):
        z, yij, xijk = gr1.solve_streett_game(aut)
    if z == aut.false:
        return None
    qinit = rng.choice([r'\A \A', r'\E \E', r'\A \E', r'\E \A'])
    aut.qinit = qinit
    if qinit == r'\A \A':
        aut.init['env'] = z
        aut.init['sys'] = aut.true
    elif qinit == r'\E \E':
        aut.init['env'] = aut.true
        aut.init['sys'] = ar.bdd1(games.rand_table1(rng, ar, 0.7)) | z
    else:
        aut.init['env'] = ar.bdd1(games.rand_table1(rng, ar, 0.7))
        aut.init['sys'] = ar.bdd1(games.rand_table1(rng, ar, 0.8))
    try:
        with contextlib.redirect_stdout(io.StringIO()):
            if not gr1.is_realizable(z, aut):
                return None
            gr1.make_streett_transducer(z, yij, xijk, aut)
    except AssertionError:
        return None
    names = dict(const=list(decl.get('const', {})),
                 env=list(aut.varlist['env']),
                 impl=list(aut.varlist['impl']))
    return dict(aut=aut, names=names, kind='streett', backend=backend,
                mode=dict(moore=moore, plus_one=plus_one, qinit=qinit),
                win=z)


def build_handmade(rng, backend, max_states=16):
    """A stepper over a hand-made (random) action and initial condition."""
    decl = games.random_decl(rng, max_states=max_states,
                             allow_const=rng.random() < 0.3)
    ar = games.Arena(decl, backend)
    aut = ar.aut
    kind = rng.choice(['moore', 'mealy', 'sparse'])
    if kind == 'moore':
        A = games.rand_table2(rng, ar, rng.choice([0.3, 0.6]), no_xp=True)
    elif kind == 'mealy':
        A = games.rand_table2(rng, ar, rng.choice([0.3, 0.6]))
    else:
        A = games.rand_table2(rng, ar, 0.08)
    aut.action['impl'] = ar.bdd2(A)
    aut.init['impl'] = ar.bdd1(games.rand_table1(
        rng, ar, rng.choice([0.0, 0.2, 0.6])))
    aut.action['env'] = ar.bdd2(
        games.rand_table2(rng, ar, 0.8, no_yp=True))
    aut.varlist['impl'] = list(aut.varlist['sys'])
    aut.prime_varlists()
    names = dict(const=list(decl.get('const', {})),
                 env=list(aut.varlist['env']),
                 impl=list(aut.varlist['impl']))
    return dict(aut=aut, names=names, kind='handmade-' + kind,
                backend=backend, mode={}, win=None)


def describe(inst):
    """Declarations and truth tables of a built automaton."""
    aut = inst['aut']
    ids = all_names(aut, inst['names'])
    ds = make_decls(aut, ids)
    inst['ds'] = ds
    inst['action_tbl'] = truth_table(aut, aut.action['impl'], ds)
    inst['init_tbl'] = truth_table(aut, aut.init['impl'], ds)
    return inst


# ------------------------------------------------------------- logging
ERRMAP = {AssertionError: 'Collision', ValueError: 'Disabled',
          AttributeError: 'Disabled', KeyError: 'Missing'}


def classify(e, where):
    """Map an exception of the real code to the model's error value."""
    if where == 'stepper.step' and isinstance(e, AssertionError):
        # _assert_support_assigned or `assert var in table`
        msg = e.args[0] if e.args else None
        if isinstance(msg, tuple) and len(msg) == 2 and \
                isinstance(msg[0], set):
            return 'Missing'
        return 'BadKey'
    for t, name in ERRMAP.items():
        if isinstance(e, t):
            return name
    return 'Other:' + type(e).__name__


class Logged:
    """Proxy of a machine that records every call at its interface."""

    def __init__(self, machine, where='machine'):
        self.machine = machine
        self.vars = machine.vars
        self.init_log = None
        self.step_log = []
        self.where = where

    def init(self):
        try:
            r = self.machine.init()
        except Exception as e:
            self.init_log = ('err', classify(e, self.where + '.init'))
            raise
        self.init_log = ('ok', dict(r))
        return r

    def step(self, state):
        arg = dict(state)
        try:
            r = self.machine.step(state)
        except Exception as e:
            self.step_log.append(
                (arg, ('err', classify(e, self.where + '.step'))))
            raise
        self.step_log.append((arg, ('ok', dict(r))))
        return r


class FunMachine:
    """Hand-made Moore component: outputs are a fixed pseudo-random
    function of the values it reads."""

    def __init__(self, reads, outputs, salt, modulus=3, extra_vars=(),
                 ranges=None, refuse=None):
        self.refuse = refuse   # refuses (ValueError) when acc % refuse == 0
        self.reads = list(reads)
        self.outputs = list(outputs)
        self.salt = salt
        self.modulus = modulus
        self.ranges = dict(ranges or {})   # output -> allowed values
        self.vars = {k: dict(type='int', dom=(0, modulus - 1))
                     for k in list(reads) + list(outputs) + list(extra_vars)}

    def _val(self, o, n):
        vals = self.ranges.get(o)
        if vals:
            return vals[n % len(vals)]
        return n % self.modulus

    def init(self):
        return {o: self._val(o, self.salt + 7 * i)
                for i, o in enumerate(self.outputs)}

    def step(self, state):
        acc = self.salt
        for k in self.reads:
            if k in state:
                acc = (acc * 31 + 17 * int(state[k]) + len(k)) % 1009
            else:
                acc = (acc * 31 + 5) % 1009
        if self.refuse and acc % self.refuse == 0:
            raise ValueError('FunMachine: step disabled at this state')
        return {o: self._val(o, acc + 7 * i)
                for i, o in enumerate(self.outputs)}
