(* L4Enum / EnumOrderProofs: the theorems of EnumProofs for the worklist model
   with a parametric enumeration order (EnumOrder.step_o / run_o).

   EnumModel.step enumerates the next environment values at a node as
   seq 0 nx; the code enumerates what dd's `pick_iter` yields.  Here the
   list of next environment values at a node with state s is [enum s], and
   all that is assumed of it is: no repetitions, values below nx, and every
   value the environment's action allows at s (for s in range) is listed.
   Under these hypotheses (and the same one on [pick] as in EnumProofs):

   - step_o / run_o preserve EnumProofs.Inv           (step_o_inv, run_o_inv)
   - the result passes check_graph                    (run_o_check, enum_sound_o)
   - the initial nodes are a prefix of the result     (step_o_prefix, run_o_prefix)
   - the measure mu decreases by one at each step     (step_o_mu)
   - fuel is never what stops the enumeration         (run_o_fuel_irrelevant,
                                                       run_o_enough_fuel)

   The lemmas about process_env / process_all, the invariant, the checker
   and the measure are those of EnumProofs (already stated for an arbitrary
   list of next environment values); only the lemmas that mention step / run
   are redone here.  The last section shows that EnumModel.step / run are
   the instance enum := fun _ => seq 0 nx (step_o_seq, run_o_seq). *)
From Coq Require Import List Bool Arith Lia.
Import ListNotations.
From Omega Require Import L4Enum.EnumModel L4Enum.EnumProofs L4Enum.EnumOrder.

Section EnumOP.
Variables nx ny : nat.
Variable E : nat -> nat -> nat -> bool.
Variable S : nat -> nat -> nat -> nat -> bool.
Variable pick : (nat -> bool) -> option nat.
Hypothesis pick_sound : forall p y, pick p = Some y -> y < ny /\ p y = true.
Variable enum : state -> list nat.
Hypothesis enum_nodup : forall s, NoDup (enum s).
Hypothesis enum_range : forall s x', In x' (enum s) -> x' < nx.
Hypothesis enum_complete : forall s x',
  in_range nx ny s -> x' < nx -> E (fst s) (snd s) x' = true -> In x' (enum s).

Local Notation step_o := (step_o ny E S pick enum).
Local Notation run_o := (run_o ny E S pick enum).
Local Notation process_all := (process_all ny E S pick).
Local Notation Inv := (Inv nx ny E S).
Local Notation WF := (WF nx ny E S).
Local Notation mu := (mu nx ny).

(* popping the head of the queue keeps the graph well-formed *)
Lemma pop_wf g u q :
  WF g -> queue g = u :: q -> WF (mkG (nodes g) q (edges g)) /\ ~ In u q.
Proof.
  intros Hwf Eq.
  assert (Hq : NoDup (u :: q)) by (rewrite <- Eq; apply (wf_qnodup _ _ _ _ g Hwf)).
  inversion Hq as [|? ? Hnin Hq']. subst. split; [|exact Hnin].
  constructor; cbn [nodes queue edges].
  - apply (wf_nodup _ _ _ _ g Hwf).
  - apply (wf_range _ _ _ _ g Hwf).
  - apply (wf_edges _ _ _ _ g Hwf).
  - intros a Ha. apply (wf_queue _ _ _ _ g Hwf). rewrite Eq. right. exact Ha.
  - exact Hq'.
  - intros a e Ha. apply (wf_qfresh _ _ _ _ g Hwf). rewrite Eq. right. exact Ha.
Qed.

(* what process_all_inv gives for the list [enum s] at a popped node *)
Lemma step_o_body g g' u q s :
  WF g -> queue g = u :: q -> nth_error (nodes g) u = Some s ->
  process_all s u (mkG (nodes g) q (edges g)) (enum s) = Some g' ->
  WF g' /\ extends (mkG (nodes g) q (edges g)) g' /\
  (forall a x'', out_count (nodes g') (edges g') a x'' =
     out_count (nodes g) (edges g) a x'' +
     (if Nat.eqb a u && mem x'' (enum s) && E (fst s) (snd s) x'' then 1 else 0)) /\
  length (nodes g') + length q = length (nodes g) + length (queue g').
Proof.
  intros Hwf Eq Eu Hall.
  destruct (pop_wf g u q Hwf Eq) as [Hwf0 Hnin].
  destruct (process_all_inv nx ny E S pick pick_sound (enum s)
              (mkG (nodes g) q (edges g)) g' u s Hwf0 Eu Hnin
              (enum_range s) (enum_nodup s) Hall) as [Hwf' [Hext Hcnt]].
  pose proof (process_all_mu nx ny E S pick pick_sound (enum s)
                (mkG (nodes g) q (edges g)) g' u s Hwf0 Eu Hnin
                (enum_range s) (enum_nodup s) Hall) as Hm.
  cbn [nodes queue edges] in Hcnt, Hm.
  split; [exact Hwf'|]. split; [exact Hext|]. split; [exact Hcnt|exact Hm].
Qed.

Theorem step_o_inv : forall g g', Inv g -> step_o g = Some g' -> Inv g'.
Proof.
  intros g g' [Hwf Hc]. unfold EnumOrder.step_o.
  destruct (queue g) as [|u q] eqn:Eq;
    [intros H; inversion H; subst; split; [exact Hwf|rewrite Eq; exact Hc]|].
  destruct (nth_error (nodes g) u) as [s|] eqn:Eu; [|discriminate].
  intros Hall.
  destruct (pop_wf g u q Hwf Eq) as [_ Hnin].
  destruct (step_o_body g g' u q s Hwf Eq Eu Hall) as [Hwf' [Hext [Hcnt _]]].
  split; [exact Hwf'|]. intros a t Ha Hna x'' Hx''. rewrite Hcnt.
  destruct (Nat.eqb a u) eqn:Ea.
  - apply Nat.eqb_eq in Ea. subst a.
    rewrite (extends_nth _ g' u s Hext Eu) in Ha. inversion Ha. subst t.
    rewrite (queued_no_edges nx ny E S g u x'' Hwf) by (rewrite Eq; left; reflexivity).
    cbn [andb Nat.add].
    destruct (E (fst s) (snd s) x'') eqn:He; [|rewrite andb_false_r; reflexivity].
    assert (Hm : mem x'' (enum s) = true).
    { apply mem_In, enum_complete; [|exact Hx''|exact He].
      apply (wf_range _ _ _ _ g Hwf). apply (nth_error_In _ _ Eu). }
    rewrite Hm. reflexivity.
  - cbn [andb]. rewrite Nat.add_0_r.
    apply Nat.eqb_neq in Ea.
    destruct Hext as [[extra Hn] [Hq1 [Hq2 Hq3]]]. cbn [nodes queue] in *.
    assert (Hal' : a < length (nodes g')) by (apply nth_error_Some; congruence).
    assert (Hal : a < length (nodes g)).
    { destruct (Nat.lt_ge_cases a (length (nodes g))) as [H|H]; [exact H|exfalso].
      apply Hna, Hq3. lia. }
    assert (Hat : nth_error (nodes g) a = Some t).
    { rewrite Hn, nth_error_app1 in Ha by exact Hal. exact Ha. }
    apply (Hc a t Hat); [|exact Hx''].
    intros [H|H]; [congruence|]. apply Hna, Hq1, H.
Qed.

Theorem run_o_inv : forall fuel g g',
  Inv g -> run_o fuel g = Some g' -> Inv g' /\ queue g' = [].
Proof.
  induction fuel as [|k IH]; intros g g' Hi; cbn [EnumOrder.run_o].
  - destruct (queue g) eqn:Eq; [|discriminate].
    intros H. inversion H. subst. auto.
  - destruct (queue g) eqn:Eq.
    + intros H. inversion H. subst. auto.
    + destruct (step_o g) as [g1|] eqn:Es; [|discriminate].
      intros H. apply (IH g1 g'); [|exact H]. apply (step_o_inv g g1 Hi Es).
Qed.

Theorem run_o_check : forall fuel g g',
  Inv g -> run_o fuel g = Some g' -> check_graph nx ny E S g' = true.
Proof.
  intros fuel g g' Hi Hrun. destruct (run_o_inv fuel g g' Hi Hrun) as [Hi' Hq].
  apply inv_check; assumption.
Qed.

Lemma step_o_prefix : forall g g',
  Inv g -> step_o g = Some g' -> exists extra, nodes g' = nodes g ++ extra.
Proof.
  intros g g' [Hwf Hc]. unfold EnumOrder.step_o.
  destruct (queue g) as [|u q] eqn:Eq;
    [intros H; inversion H; subst; exists []; rewrite app_nil_r; reflexivity|].
  destruct (nth_error (nodes g) u) as [s|] eqn:Eu; [|discriminate].
  intros Hall.
  destruct (step_o_body g g' u q s Hwf Eq Eu Hall) as [_ [[Hext _] _]].
  exact Hext.
Qed.

Theorem run_o_prefix : forall fuel g g',
  Inv g -> run_o fuel g = Some g' -> exists extra, nodes g' = nodes g ++ extra.
Proof.
  induction fuel as [|k IH]; intros g g' Hi; cbn [EnumOrder.run_o].
  - destruct (queue g); [|discriminate]. intros H. inversion H. subst.
    exists []. rewrite app_nil_r. reflexivity.
  - destruct (queue g) eqn:Eq.
    + intros H. inversion H. subst. exists []. rewrite app_nil_r. reflexivity.
    + destruct (step_o g) as [g1|] eqn:Es; [|discriminate]. intros H.
      destruct (step_o_prefix g g1 Hi Es) as [e1 H1].
      destruct (IH g1 g' (step_o_inv g g1 Hi Es) H) as [e2 H2].
      exists (e1 ++ e2). rewrite H2, H1, app_assoc. reflexivity.
Qed.

(* C12, worklist part, for any enumeration order of the next environment
   values (see EnumProofs.enum_sound) *)
Theorem enum_sound_o : forall fuel l q g,
  NoDup l -> (forall s, In s l -> in_range nx ny s) ->
  NoDup q -> (forall u, In u q <-> u < length l) ->
  run_o fuel (mkG l q []) = Some g ->
  check_graph nx ny E S g = true /\ (exists extra, nodes g = l ++ extra).
Proof.
  intros fuel l q g Hl Hr Hq Hall Hrun.
  pose proof (init_inv nx ny E S l q Hl Hr Hq Hall) as Hi0.
  split; [apply (run_o_check fuel _ _ Hi0 Hrun)|].
  apply (run_o_prefix fuel _ _ Hi0 Hrun).
Qed.

(* ---- termination -------------------------------------------------------- *)
Theorem step_o_mu : forall g g',
  Inv g -> queue g <> [] -> step_o g = Some g' -> mu g' + 1 = mu g.
Proof.
  intros g g' [Hwf Hc] Hne. unfold EnumOrder.step_o.
  destruct (queue g) as [|u q] eqn:Eq; [congruence|].
  destruct (nth_error (nodes g) u) as [s|] eqn:Eu; [|discriminate].
  intros Hall.
  destruct (step_o_body g g' u q s Hwf Eq Eu Hall) as [Hwf' [_ [_ Hm]]].
  pose proof (nodes_bound nx ny E S g' Hwf') as Hb.
  pose proof (nodes_bound nx ny E S g Hwf) as Hb0.
  unfold EnumProofs.mu. rewrite Eq. cbn [length]. lia.
Qed.

Theorem run_o_fuel_irrelevant : forall fuel g k,
  Inv g -> mu g <= fuel -> run_o (fuel + k) g = run_o fuel g.
Proof.
  induction fuel as [|f IH]; intros g k Hi Hm.
  - destruct (queue g) as [|u q] eqn:Eq.
    + destruct k; cbn [Nat.add EnumOrder.run_o]; rewrite Eq; reflexivity.
    + exfalso. unfold EnumProofs.mu in Hm. rewrite Eq in Hm. cbn [length] in Hm. lia.
  - cbn [Nat.add EnumOrder.run_o]. destruct (queue g) as [|u q] eqn:Eq; [reflexivity|].
    destruct (step_o g) as [g1|] eqn:Es; [|reflexivity].
    apply IH; [apply (step_o_inv g g1 Hi Es)|].
    assert (Hne : queue g <> []) by (rewrite Eq; discriminate).
    pose proof (step_o_mu g g1 Hi Hne Es). lia.
Qed.

Corollary run_o_enough_fuel : forall l q fuel k,
  NoDup l -> (forall s, In s l -> in_range nx ny s) ->
  NoDup q -> (forall u, In u q <-> u < length l) ->
  nx * ny <= fuel ->
  run_o (fuel + k) (mkG l q []) = run_o fuel (mkG l q []).
Proof.
  intros l q fuel k Hl Hr Hq Hall Hf. apply run_o_fuel_irrelevant.
  - apply init_inv; assumption.
  - unfold EnumProofs.mu. cbn [nodes queue].
    assert (length q = length l).
    { apply Nat.le_antisymm.
      - rewrite <- (seq_length (length l) 0). apply NoDup_incl_length; [exact Hq|].
        intros u Hu. apply in_seq. apply Hall in Hu. lia.
      - rewrite <- (seq_length (length l) 0) at 1. apply NoDup_incl_length; [apply seq_NoDup|].
        intros u Hu. apply in_seq in Hu. apply Hall. lia. }
    pose proof (nodes_bound nx ny E S (mkG l q []) (proj1 (init_inv nx ny E S l q Hl Hr Hq Hall))) as Hb.
    cbn [nodes] in Hb. lia.
Qed.

End EnumOP.

(* ---- the original model is the instance enum := fun _ => seq 0 nx ------- *)
Section EnumOSeq.
Variables nx ny : nat.
Variable E : nat -> nat -> nat -> bool.
Variable S : nat -> nat -> nat -> nat -> bool.
Variable pick : (nat -> bool) -> option nat.

Lemma step_o_seq : forall g,
  step_o ny E S pick (fun _ => seq 0 nx) g = step nx ny E S pick g.
Proof. intros g. reflexivity. Qed.

Theorem run_o_seq : forall fuel g,
  run_o ny E S pick (fun _ => seq 0 nx) fuel g = run nx ny E S pick fuel g.
Proof.
  induction fuel as [|k IH]; intros g; cbn [EnumOrder.run_o EnumModel.run].
  - reflexivity.
  - destruct (queue g); [reflexivity|]. rewrite step_o_seq.
    destruct (step nx ny E S pick g) as [g1|]; [apply IH|reflexivity].
Qed.

(* the hypotheses of Section EnumOP hold of this instance *)
Lemma seq_enum_nodup : forall s : state, NoDup (seq 0 nx).
Proof. intros _. apply seq_NoDup. Qed.
Lemma seq_enum_range : forall (s : state) x', In x' (seq 0 nx) -> x' < nx.
Proof. intros _ x' H. apply in_seq in H. lia. Qed.
Lemma seq_enum_complete : forall (s : state) x',
  in_range nx ny s -> x' < nx -> E (fst s) (snd s) x' = true -> In x' (seq 0 nx).
Proof. intros _ x' _ H _. apply in_seq. lia. Qed.

End EnumOSeq.

Print Assumptions enum_sound_o.
Print Assumptions run_o_enough_fuel.
