"""Tie G for C16: literal tables of lexyacc.py and doc/doc.md -> Gallina.

Everything is read from the *source text* with `ast` (never by importing
omega): the PLY precedence tuple, the lexer's token rules in PLY's matching
order with their alternative spellings and normalised values, the reserved
words, the grammar productions in the `p_*` docstrings, and from doc/doc.md
the precedence list and the BNF operator tokens.  The extractor is
fail-closed: anything it does not understand raises `Broken('table', ...)`.
"""
import ast
import os
import re

from vlib.core import Broken, REPO

LEX_PATH = 'omega/logic/lexyacc.py'
DOC_PATH = 'doc/doc.md'

# regexes that are not plain alternatives of literal spellings; the text is
# the docstring / string constant with all (verbose-mode) whitespace removed
SPECIAL_RULES = {
    r'[A-Za-z_][A-Za-z0-9_]*': 'RName',
    r'\d+': 'RNumber',
    r'\\\*[^\n]*\n': 'RLineComment',
    r'\(\*[\s\S]*?\*\)': 'RMlComment',
    r'\n+': 'RNewline',
}
META = set('.^$*+?{}[]|()\\')


def _fail(msg):
    raise Broken('table', msg)


def regex_to_alts(rx):
    """Verbose-mode regex that is a plain alternation of literals -> list."""
    rx = re.sub(r'\s+', '', rx)
    alts, cur, i = [], '', 0
    while i < len(rx):
        c = rx[i]
        if c == '\\':
            if i + 1 >= len(rx):
                return None
            d = rx[i + 1]
            if d.isalnum():      # \d \s \n ... : a class, not a literal
                return None
            cur += d
            i += 2
        elif c == '|':
            alts.append(cur)
            cur = ''
            i += 1
        elif c in META:
            return None
        else:
            cur += c
            i += 1
    alts.append(cur)
    if any(a == '' for a in alts):
        return None
    return alts


def _const_str(node):
    if isinstance(node, ast.Constant) and isinstance(node.value, str):
        return node.value
    # ''.join(['\x20', '\t'])
    if (isinstance(node, ast.Call) and isinstance(node.func, ast.Attribute)
            and node.func.attr == 'join' and len(node.args) == 1):
        sep = _const_str(node.func.value)
        try:
            parts = ast.literal_eval(node.args[0])
        except Exception:
            return None
        if sep is not None and all(isinstance(p, str) for p in parts):
            return sep.join(parts)
    return None


def _self_assigns(func):
    """{attr: value-node} for `self.attr = <expr>` statements of a method."""
    out = {}
    for st in func.body:
        if (isinstance(st, ast.Assign) and len(st.targets) == 1
                and isinstance(st.targets[0], ast.Attribute)
                and isinstance(st.targets[0].value, ast.Name)
                and st.targets[0].value.id == 'self'):
            out[st.targets[0].attr] = st.value
    return out


NAME_BODY = ("t.value = self.values.get(t.value, t.value); "
             "t.type = self.reserved.get(t.value, 'NAME'); return t")


def _rule_from_function(fn):
    doc = ast.get_docstring(fn, clean=False)
    if doc is None:
        _fail(f'lexer rule {fn.name} has no regex docstring')
    body = fn.body[1:]
    norm, emit = None, False
    text = '; '.join(ast.unparse(s) for s in body)
    if fn.name == 't_NAME':
        if text != NAME_BODY:
            _fail('t_NAME body changed: ' + text)
        return doc, None, True
    for st in body:
        if (isinstance(st, ast.Assign) and len(st.targets) == 1
                and ast.unparse(st.targets[0]) == 't.value'
                and isinstance(st.value, ast.Constant)
                and isinstance(st.value.value, str)):
            norm = st.value.value
        elif isinstance(st, ast.Return):
            emit = (st.value is not None
                    and ast.unparse(st.value) == 't')
        elif (isinstance(st, ast.AugAssign)
              and ast.unparse(st.target) == 't.lexer.lineno'):
            pass                      # line counting only
        else:
            _fail(f'lexer rule {fn.name}: unsupported statement '
                  + ast.unparse(st))
    return doc, norm, emit


def extract_lexer(tree):
    cls = [n for n in tree.body
           if isinstance(n, ast.ClassDef) and n.name == 'Lexer']
    if len(cls) != 1:
        _fail('class Lexer not found')
    cls = cls[0]
    init = [n for n in cls.body
            if isinstance(n, ast.FunctionDef) and n.name == '__init__']
    if len(init) != 1:
        _fail('Lexer.__init__ not found')
    asg = _self_assigns(init[0])
    try:
        reserved = ast.literal_eval(asg['reserved'])
        values = ast.literal_eval(asg['values'])
        toknames = (ast.literal_eval(asg['delimiters'])
                    + ast.literal_eval(asg['operators'])
                    + ast.literal_eval(asg['misc']))
    except Exception as e:
        _fail('Lexer.__init__ tables: ' + repr(e))
    toknames += sorted(set(reserved.values()))
    funcs, strs, ignore = [], [], ''
    for n in cls.body:
        if isinstance(n, ast.FunctionDef) and n.name.startswith('t_'):
            rx, norm, emit = _rule_from_function(n)
            funcs.append((n.lineno, n.name[2:], rx, norm, emit))
        elif (isinstance(n, ast.Assign) and len(n.targets) == 1
              and isinstance(n.targets[0], ast.Name)
              and n.targets[0].id.startswith('t_')):
            name = n.targets[0].id[2:]
            s = _const_str(n.value)
            if s is None:
                _fail(f't_{name}: not a string constant')
            if name == 'ignore':
                ignore = s
            else:
                strs.append((name, s))
    # PLY order: functions by line number, then strings by decreasing
    # regex length (stable w.r.t. alphabetical order of dir())
    funcs.sort(key=lambda x: x[0])
    strs.sort(key=lambda x: x[0])
    strs.sort(key=lambda x: len(x[1]), reverse=True)
    rules = []
    for _, name, rx, norm, emit in funcs:
        rules.append(_mk_rule(name, rx, norm, emit))
    for name, rx in strs:
        rules.append(_mk_rule(name, rx, None, True))
    for r in rules:
        if r['emit'] and r['type'] not in toknames:
            _fail(f'rule t_{r["type"]} is not a declared token')
    return dict(rules=rules, reserved=reserved, values=values,
                ignore=ignore, tokens=toknames)


def _mk_rule(name, rx, norm, emit):
    flat = re.sub(r'\s+', '', rx)
    if flat in SPECIAL_RULES:
        return dict(type=name, kind=SPECIAL_RULES[flat], alts=[],
                    norm=norm, emit=emit)
    alts = regex_to_alts(rx)
    if alts is None:
        _fail(f't_{name}: regex {flat!r} is neither a plain alternation '
              'of literal spellings nor a known special rule')
    return dict(type=name, kind='RLit', alts=alts, norm=norm, emit=emit)


def _production_lines(doc):
    """PLY grammar docstring -> [(lhs, [symbols], prec or None)]."""
    out, lhs = [], None
    toks = doc.split()
    i = 0
    cur = None
    while i < len(toks):
        t = toks[i]
        if i + 1 < len(toks) and toks[i + 1] == ':' and cur is None \
                and lhs is None:
            lhs = t
            cur = []
            i += 2
            continue
        if t == '|':
            out.append(cur)
            cur = []
        else:
            cur.append(t)
        i += 1
    out.append(cur)
    res = []
    for syms in out:
        prec = None
        if '%prec' in syms:
            k = syms.index('%prec')
            if k != len(syms) - 2:
                _fail('unexpected %prec position in ' + doc)
            prec = syms[k + 1]
            syms = syms[:k]
        res.append((lhs, syms, prec))
    return res


def extract_parser(tree):
    cls = [n for n in tree.body
           if isinstance(n, ast.ClassDef) and n.name == 'Parser']
    if len(cls) != 1:
        _fail('class Parser not found')
    cls = cls[0]
    init = [n for n in cls.body
            if isinstance(n, ast.FunctionDef) and n.name == '__init__'][0]
    asg = _self_assigns(init)
    try:
        prec = ast.literal_eval(asg['precedence'])
        start = ast.literal_eval(asg['start'])
    except Exception as e:
        _fail('Parser.precedence: ' + repr(e))
    for row in prec:
        if (not isinstance(row, tuple) or len(row) < 2
                or row[0] not in ('left', 'right', 'nonassoc')
                or not all(isinstance(x, str) for x in row)):
            _fail(f'precedence row {row!r}')
    prods = []
    for n in cls.body:
        if not (isinstance(n, ast.FunctionDef) and n.name.startswith('p_')
                and n.name != 'p_error'):
            continue
        st = n.body[0]
        doc = None
        if isinstance(st, ast.Expr):
            doc = _const_str(st.value)
        if doc is None:
            _fail(f'{n.name}: no grammar docstring')
        # node class and constant operator name used by the action
        cls_name, const_op = None, None
        for sub in ast.walk(n):
            if (isinstance(sub, ast.Assign) and len(sub.targets) == 1
                    and ast.unparse(sub.targets[0]) == 'p[0]'
                    and isinstance(sub.value, ast.Call)
                    and isinstance(sub.value.func, ast.Attribute)
                    and ast.unparse(sub.value.func.value) == 'self.nodes'):
                cls_name = sub.value.func.attr
                a0 = sub.value.args[0] if sub.value.args else None
                if isinstance(a0, ast.Constant) and isinstance(a0.value, str):
                    const_op = a0.value
        for lhs, syms, pr in _production_lines(doc):
            prods.append(dict(fn=n.name, lhs=lhs, rhs=syms, prec=pr,
                              node=cls_name or '', const=const_op or ''))
    return dict(precedence=[(r[0], list(r[1:])) for r in prec],
                productions=prods, start=start)


def _tla_unescape(s):
    out, i = '', 0
    while i < len(s):
        if s[i] == '\\' and i + 1 < len(s):
            out += s[i + 1]
            i += 2
        else:
            out += s[i]
            i += 1
    return out


TOK = r'tok\("((?:[^"\\]|\\.)*)"\)'


def extract_doc(text):
    m = re.search(r'^The token precedence \(lowest to highest\)', text,
                  flags=re.M)
    if not m:
        _fail('doc.md: precedence list not found')
    lines = text[m.end():].split('\n')
    levels, started = [], False
    for ln in lines:
        s = ln.strip()
        if s.startswith('- `'):
            started = True
            mm = re.fullmatch(r'- ((?:`[^`]+`(?:, )?)+) \((l|r|n)\)', s)
            if not mm:
                _fail('doc.md: precedence line not understood: ' + s)
            toks = re.findall(r'`([^`]+)`', mm.group(1))
            levels.append(({'l': 'left', 'r': 'right',
                            'n': 'nonassoc'}[mm.group(2)], toks))
        elif started and s:
            break
    if len(levels) < 5:
        _fail('doc.md: precedence list too short')
    blocks = [b for b in re.findall(r'```tla\n(.*?)```', text, flags=re.S)
              if 'is_parser_grammar' in b]
    if len(blocks) != 1:
        _fail('doc.md: BNF block not found')
    bnf = blocks[0]
    bnf = re.sub(r'\(\*.*?\*\)', ' ', bnf, flags=re.S)
    m2 = re.search(r'/\\ G\.expr =(.*?)/\\ G\.defs =', bnf, flags=re.S)
    if not m2:
        _fail('doc.md: G.expr alternatives not found')
    body = m2.group(1)
    binary = [_tla_unescape(x) for x in re.findall(
        r'\|\s*G\.expr\s*&\s*' + TOK + r'\s*&\s*G\.expr\s*(?=\||$)', body)]
    prefix = [_tla_unescape(x) for x in re.findall(
        r'\|\s*' + TOK + r'\s*&\s*G\.expr\s*(?=\||$)', body)]
    postfix = [_tla_unescape(x) for x in re.findall(
        r'\|\s*G\.expr\s*&\s*' + TOK + r'\s*(?=\||$)', body)]
    alltoks = []
    for x in re.findall(TOK, bnf[bnf.index('is_parser_grammar'):]):
        x = _tla_unescape(x)
        if x not in alltoks:
            alltoks.append(x)
    # `in == tok("\\in")` etc. inside the LET block of the range rule
    return dict(levels=levels, bnf_tokens=alltoks, binary=binary,
                prefix=prefix, postfix=postfix)


BV_PATH = 'omega/logic/bitvector.py'


def extract_opmap(tree):
    """bitvector.Nodes.opmap (operator string -> bit-level operator)."""
    for n in tree.body:
        if isinstance(n, ast.ClassDef) and n.name == 'Nodes':
            for st in n.body:
                if (isinstance(st, ast.Assign) and len(st.targets) == 1
                        and isinstance(st.targets[0], ast.Name)
                        and st.targets[0].id == 'opmap'):
                    try:
                        d = ast.literal_eval(st.value)
                    except Exception as e:
                        _fail('bitvector.Nodes.opmap: ' + repr(e))
                    if not all(isinstance(k, str) and isinstance(v, str)
                               for k, v in d.items()):
                        _fail('bitvector.Nodes.opmap: not str -> str')
                    return d
    _fail('bitvector.Nodes.opmap not found')


def extract(repo=None):
    repo = repo or REPO
    with open(os.path.join(repo, LEX_PATH)) as f:
        src = f.read()
    try:
        tree = ast.parse(src)
    except SyntaxError as e:
        _fail('lexyacc.py does not parse: ' + repr(e))
    with open(os.path.join(repo, DOC_PATH)) as f:
        doc = f.read()
    with open(os.path.join(repo, BV_PATH)) as f:
        try:
            bvtree = ast.parse(f.read())
        except SyntaxError as e:
            _fail('bitvector.py does not parse: ' + repr(e))
    return dict(lexer=extract_lexer(tree), parser=extract_parser(tree),
                doc=extract_doc(doc), opmap=extract_opmap(bvtree))


# ---------------------------------------------------------------- Gallina
def qs(s):
    """Python str -> Coq string term (ASCII; control chars via codes)."""
    if all(32 <= ord(c) < 127 for c in s):
        return '"' + s.replace('"', '""') + '"'
    return ('(string_of_codes ['
            + '; '.join(str(ord(c)) for c in s) + ']%N)')


def qlist(xs, f=qs):
    return '[' + '; '.join(f(x) for x in xs) + ']'


def qopt(x):
    return 'None' if x is None else f'(Some {qs(x)})'


def to_coq(t):
    L, P, D = t['lexer'], t['parser'], t['doc']
    out = ['(* GENERATED by tools/vlib/syntax_tables.py from '
           'omega/logic/lexyacc.py and doc/doc.md\n   in the working tree '
           'of /repo.  Do not edit; regenerated on every check run. *)',
           'From Coq Require Import List String NArith.',
           'Import ListNotations.',
           'From Omega Require Import L6Syntax.Tokens.',
           'Local Open Scope string_scope.', '']
    out.append('Definition lex_rules : list lexrule := [')
    rows = []
    for r in L['rules']:
        rows.append(f'  mkRule {qs(r["type"])} {r["kind"]} '
                    f'{qlist(r["alts"])} {qopt(r["norm"])} '
                    f'{"true" if r["emit"] else "false"}')
    out.append(';\n'.join(rows) + '].')
    out.append('Definition lex_reserved : list (string * string) := '
               + qlist(sorted(L['reserved'].items()),
                       lambda kv: f'({qs(kv[0])}, {qs(kv[1])})') + '.')
    out.append('Definition lex_values : list (string * string) := '
               + qlist(sorted(L['values'].items()),
                       lambda kv: f'({qs(kv[0])}, {qs(kv[1])})') + '.')
    out.append('Definition lex_ignore : list N := '
               + qlist(L['ignore'], lambda c: str(ord(c))) + '%N.')
    out.append('Definition code_prec : list (assoc * list string) := [')
    out.append(';\n'.join(
        f'  ({ {"left": "LeftA", "right": "RightA", "nonassoc": "NonA"}[a]}'
        f', {qlist(ts)})' for a, ts in P['precedence']) + '].')
    out.append('Definition productions : list production := [')
    out.append(';\n'.join(
        f'  mkProd {qs(p["lhs"])} {qlist(p["rhs"])} {qopt(p["prec"])} '
        f'{qs(p["node"])} {qs(p["const"])}' for p in P['productions'])
        + '].')
    out.append('Definition doc_prec : list (assoc * list string) := [')
    out.append(';\n'.join(
        f'  ({ {"left": "LeftA", "right": "RightA", "nonassoc": "NonA"}[a]}'
        f', {qlist(ts)})' for a, ts in D['levels']) + '].')
    out.append('Definition doc_bnf_tokens : list string := '
               + qlist(D['bnf_tokens']) + '.')
    out.append('Definition doc_binary : list string := '
               + qlist(D['binary']) + '.')
    out.append('Definition doc_prefix : list string := '
               + qlist(D['prefix']) + '.')
    out.append('Definition doc_postfix : list string := '
               + qlist(D['postfix']) + '.')
    out.append('Definition bv_opmap : list (string * string) := '
               + qlist(sorted(t['opmap'].items()),
                       lambda kv: f'({qs(kv[0])}, {qs(kv[1])})') + '.')
    return '\n'.join(out) + '\n'


if __name__ == '__main__':
    import json
    import sys
    t = extract(sys.argv[1] if len(sys.argv) > 1 else None)
    print(json.dumps(t, indent=1))
