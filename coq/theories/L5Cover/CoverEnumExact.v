(* L5Cover / CoverEnumExact: whenever the model of cover_enum.minimize (as
   repaired by fixes/F2.patch) returns a set of covers, it is EXACTLY the set
   of all minimum covers by primes (up to the order of boxes inside a cover),
   for every instance and every pick function.

   - [trav_exact]: the exhaustive branch and bound (_traverse_exhaustive,
     _branch_exhaustive) finds every minimum cover of its node whose total
     cost does not exceed the upper bound; the upper bound afterwards is
     unchanged or the total cost of an actual cover of the node;
   - [wrap_exact]: lifting through one reduction step (CoverEnumStep.v) and
     the two enumerations (CoverEnumLemmas.v);
   - [ccfr_exact], [enum_xy_exact], [enum_exact]. *)
From Coq Require Import List ZArith Bool Lia Arith Permutation.
Import ListNotations.
From Omega Require Import L5Cover.Boxes L5Cover.BoxesProofs L5Cover.MinCover
  L5Cover.MinCoverProofs L5Cover.BoundsProofs L5Cover.CyclicCoreOpt
  L5Cover.MinCoverFull L5Cover.CoverEnum L5Cover.CoverEnumProofs
  L5Cover.CoverEnumLemmas L5Cover.CoverEnumStep.
Open Scope Z_scope.

Lemma Forall2_imp {A B} (R1 R2 : A -> B -> Prop) l l' :
  (forall a b, R1 a b -> R2 a b) -> Forall2 R1 l l' -> Forall2 R2 l l'.
Proof. intros Hi H. induction H; constructor; [apply Hi|]; assumption. Qed.

Section Exact.
Variable rs : ranges.
Variable pick : list box -> option box.
Hypothesis pick_ok : forall s b, pick s = Some b -> In b s.

(* what a call of _cyclic_core_fixpoint_recursive / _traverse_exhaustive on
   the node (X, Y) with path cost pc and upper bound ub establishes *)
Definition post (X Y : list box) (pc ub : nat) (F : family) (u : nat) : Prop :=
  fam_nodup F /\
  (u = ub \/ exists C0, incl C0 Y /\ cov C0 X /\ (pc + length C0 <= u)%nat) /\
  (forall C, mincover X Y C -> (pc + length C <= ub)%nat -> has F C).

Definition sound (X Y : list box) (F : family) : Prop :=
  (forall c, In c F -> incl c Y /\ cov c X) /\
  (forall c c', In c F -> In c' F -> length c = length c').

Definition spec (rec : list box -> list box -> nat -> nat -> res (family * nat)) : Prop :=
  forall X Y pc ub F u,
    rec X Y pc ub = inl (F, u) ->
    below_top rs X -> above_bot rs Y -> antichain Y ->
    post X Y pc ub F u /\ sound X Y F.

(* the choice at the end of _branch_exhaustive *)
Definition merge (L R : family) : family :=
  match L, R with
  | [], _ => R
  | _, [] => L
  | l0 :: _, r0 :: _ =>
      if (length l0 <? length r0)%nat then L
      else if (length r0 <? length l0)%nat then R
      else union_fam L R
  end.

Lemma merge_cases L R : merge L R = L \/ merge L R = R \/ merge L R = union_fam L R.
Proof.
  unfold merge. destruct L as [|l0 Ls]; [auto|]. destruct R as [|r0 Rs]; [auto|].
  destruct (length l0 <? length r0)%nat; [auto|].
  destruct (length r0 <? length l0)%nat; auto.
Qed.

Lemma merge_has_l L R C :
  has L C -> (forall l r, In l L -> In r R -> (length l <= length r)%nat) ->
  has (merge L R) C.
Proof.
  intros HL Hle. unfold merge. destruct L as [|l0 Ls]; [destruct HL as [c [[] _]]|].
  destruct R as [|r0 Rs]; [exact HL|].
  specialize (Hle l0 r0 (or_introl eq_refl) (or_introl eq_refl)).
  destruct (length l0 <? length r0)%nat; [exact HL|].
  destruct (length r0 <? length l0)%nat eqn:E; [apply Nat.ltb_lt in E; lia|].
  apply union_fam_has_l, HL.
Qed.

Lemma merge_has_r L R C :
  has R C -> (forall l r, In l L -> In r R -> (length r <= length l)%nat) ->
  has (merge L R) C.
Proof.
  intros HR Hle. unfold merge. destruct L as [|l0 Ls]; [exact HR|].
  destruct R as [|r0 Rs]; [destruct HR as [c [[] _]]|].
  specialize (Hle l0 r0 (or_introl eq_refl) (or_introl eq_refl)).
  destruct (length l0 <? length r0)%nat eqn:E; [apply Nat.ltb_lt in E; lia|].
  destruct (length r0 <? length l0)%nat; [exact HR|].
  apply union_fam_has_r', HR.
Qed.

(* _traverse_exhaustive with _branch_exhaustive, as in CoverEnum.ccfr *)
Definition trav (rec : list box -> list box -> nat -> nat -> res (family * nat))
  (x y : list box) (npc ub : nat) : res (family * nat) :=
  let core_lb := indep_size pick (S (length x)) x y in
  let blb := (npc + core_lb)%nat in
  match x with
  | [] => check (is_nil y) (check (Nat.eqb core_lb 0)
            (if (ub <? blb)%nat then ok ([], ub) else ok ([[]], blb)))
  | _ =>
      if (ub <? blb)%nat then ok ([], ub)
      else
        match pick y with
        | None => fail EAssert
        | Some d =>
            let ynew := diff y [d] in
            let xm := filter (fun p => negb (box_leb p d)) x in
            check (negb (Nat.eqb (length xm) (length x)))
              (bind (rec xm ynew (S npc) ub) (fun l =>
                 let L := map (fun c => union c [d]) (fst l) in
                 bind (rec x ynew npc (snd l)) (fun r =>
                   let R := fst r in
                   match L, R with
                   | [], _ => ok (R, snd r)
                   | _, [] => ok (L, snd r)
                   | l0 :: _, r0 :: _ =>
                       if (length l0 <? length r0)%nat then ok (L, snd r)
                       else if (length r0 <? length l0)%nat then ok (R, snd r)
                       else ok (union_fam L R, snd r)
                   end)))
        end
  end.

Lemma same_set_union_remove (C c : list box) d :
  In d C -> same_set c (remove box_eq_dec d C) -> same_set C (union c [d]).
Proof.
  intros Hd [H1 H2]. split; intros b Hb.
  - apply union_In. destruct (box_eq_dec b d) as [->|Hne]; [right; left; reflexivity|].
    left. apply H2. apply in_in_remove; assumption.
  - apply union_In in Hb. destruct Hb as [Hb | [<- | [] ] ]; [|exact Hd].
    apply H1 in Hb. apply in_remove in Hb. apply Hb.
Qed.

Lemma union_single_length (c : list box) d :
  ~ In d c -> length (union c [d]) = S (length c).
Proof.
  intros H. unfold union, diff. cbn [filter].
  destruct (mem_box c d) eqn:E; [apply mem_box_true in E; contradiction|].
  cbn [negb]. rewrite app_length. cbn. lia.
Qed.

Lemma trav_exact rec x y npc ub F u :
  spec rec ->
  trav rec x y npc ub = inl (F, u) ->
  below_top rs x -> above_bot rs y -> antichain y ->
  post x y npc ub F u.
Proof.
  intros Hrec H Hx Hy Ha. unfold trav in H. cbv zeta in H.
  assert (LB : forall C, incl C y -> cov C x ->
            (indep_size pick (S (length x)) x y <= length C)%nat).
  { intros C HC Hcov. apply (indep_size_lower_bound pick pick_ok); assumption. }
  set (core_lb := indep_size pick (S (length x)) x y) in *.
  destruct x as [|x0 x'].
  - (* leaf *)
    apply check_inl in H. destruct H as [_ H]. apply check_inl in H. destruct H as [Hlb0 H].
    apply Nat.eqb_eq in Hlb0.
    destruct (ub <? npc + core_lb)%nat eqn:Eub.
    + (* a leaf more expensive than the upper bound is dropped *)
      apply Nat.ltb_lt in Eub. inversion H; subst F u. split; [|split].
      * intros c [].
      * left. reflexivity.
      * intros C _ Hle. lia.
    + inversion H; subst F u. split; [|split].
      * intros c [<-|[]]. constructor.
      * right. exists []. split; [apply incl_nil_l|]. split; [intros z []|]. cbn. lia.
      * intros C [HI [HC HM]] _.
        assert (L : (length C <= length (@nil box))%nat).
        { apply HM; [apply incl_nil_l | intros z []]. }
        destruct C; [|cbn in L; lia]. apply has_in. left. reflexivity.
  - remember (x0 :: x') as x eqn:Ex. clear Ex.
    destruct (ub <? npc + core_lb)%nat eqn:Eub.
    + (* prune *)
      apply Nat.ltb_lt in Eub. inversion H; subst F u. split; [|split].
      * intros c [].
      * left. reflexivity.
      * intros C [HI [HC _]] Hle. specialize (LB C HI HC). lia.
    + apply Nat.ltb_ge in Eub.
      destruct (pick y) as [d|] eqn:Ed; [|discriminate]. apply pick_ok in Ed.
      set (ynew := diff y [d]) in *.
      set (xm := filter (fun p => negb (box_leb p d)) x) in *.
      apply check_inl in H. destruct H as [_ H].
      apply bind_inl in H. destruct H as [[Fl ul] [HL H]]. cbn [fst snd] in H.
      apply bind_inl in H. destruct H as [[Fr ur] [HR H]]. cbn [fst snd] in H.
      assert (Hyn_incl : incl ynew y).
      { intros z Hz. apply diff_In in Hz. apply Hz. }
      assert (Hxm : below_top rs xm).
      { intros z Hz. apply filter_In in Hz. apply Hx, Hz. }
      assert (Hyn : above_bot rs ynew) by (apply (above_bot_incl rs y); assumption).
      assert (Han : antichain ynew) by (apply (antichain_incl y); assumption).
      destruct (Hrec _ _ _ _ _ _ HL Hxm Hyn Han) as [[LN [LU LK]] [LS1 LS2]].
      destruct (Hrec _ _ _ _ _ _ HR Hx Hyn Han) as [[RN [RU RK]] [RS1 RS2]].
      (* facts about the left family with d added *)
      assert (LdN : fam_nodup (map (fun c => union c [d]) Fl)).
      { intros c Hc. apply in_map_iff in Hc. destruct Hc as [c0 [<- Hc0]].
        apply union_NoDup; [apply LN, Hc0 | constructor; [intros [] | constructor]]. }
      assert (Ld_notin : forall c, In c Fl -> ~ In d c).
      { intros c Hc Hd. destruct (LS1 c Hc) as [Hi _]. apply Hi in Hd.
        apply diff_In in Hd. apply (proj2 Hd). left. reflexivity. }
      assert (Ld_cover : forall c, In c Fl -> incl (union c [d]) y /\ cov (union c [d]) x).
      { intros c Hc. destruct (LS1 c Hc) as [Hi Hcv]. split.
        - intros z Hz. apply union_In in Hz. destruct Hz as [Hz | [<- | [] ] ];
            [apply Hyn_incl, Hi, Hz | exact Ed].
        - intros z Hz. destruct (box_leb z d) eqn:Ezd.
          + exists d. split; [apply union_In; right; left; reflexivity | apply box_leb_true, Ezd].
          + destruct (Hcv z) as [c1 [Hc1 Hle]].
            { apply filter_In. split; [exact Hz | rewrite Ezd; reflexivity]. }
            exists c1. split; [apply union_In; left; exact Hc1 | exact Hle]. }
      assert (Rcover : forall c, In c Fr -> incl c y /\ cov c x).
      { intros c Hc. destruct (RS1 c Hc) as [Hi Hcv]. split; [|exact Hcv].
        intros z Hz. apply Hyn_incl, Hi, Hz. }
      (* the result *)
      assert (Res : F = merge (map (fun c => union c [d]) Fl) Fr /\ u = ur).
      { unfold merge. destruct (map (fun c => union c [d]) Fl) as [|l0 Ls]; [inversion H; auto|].
        destruct Fr as [|r0 Rs]; [inversion H; auto|].
        destruct (length l0 <? length r0)%nat; [inversion H; auto|].
        destruct (length r0 <? length l0)%nat; inversion H; auto. }
      destruct Res as [-> ->]. clear H.
      split; [|split].
      * (* duplicate-free *)
        destruct (merge_cases (map (fun c => union c [d]) Fl) Fr) as [->|[->| ->]];
          [exact LdN | exact RN | apply union_fam_nodup; assumption].
      * (* the upper bound *)
        destruct RU as [->|[C0 [A [B D]]]].
        -- destruct LU as [->|[C0 [A [B D]]]]; [left; reflexivity|].
           right. exists (d :: C0). split; [|split].
           ++ intros z [<-|Hz]; [exact Ed | apply Hyn_incl, A, Hz].
           ++ intros z Hz. destruct (box_leb z d) eqn:Ezd.
              ** exists d. split; [left; reflexivity | apply box_leb_true, Ezd].
              ** destruct (B z) as [c1 [Hc1 Hle]].
                 { apply filter_In. split; [exact Hz | rewrite Ezd; reflexivity]. }
                 exists c1. split; [right; exact Hc1 | exact Hle].
           ++ cbn [length]. lia.
        -- right. exists C0. split; [intros z Hz; apply Hyn_incl, A, Hz|]. split; assumption.
      * (* every minimum cover within the bound is found *)
        intros C HC Hle. pose proof (mincover_NoDup _ _ _ HC) as HCN.
        destruct HC as [HI [HCov HM]].
        destruct (in_dec box_eq_dec d C) as [Hd|Hd].
        -- (* C uses d: C \ d is a minimum cover of the left node *)
           set (C' := remove box_eq_dec d C).
           pose proof (remove_length_lt box_eq_dec C d Hd) as Hlt.
           pose proof (remove_NoDup_length C d HCN) as Hge. fold C' in Hlt, Hge.
           assert (HC' : mincover xm ynew C').
           { split; [|split].
             - intros z Hz. apply in_remove in Hz. destruct Hz as [Hz Hne].
               apply diff_In. split; [apply HI, Hz|]. intros [E | [] ]. apply Hne. symmetry. exact E.
             - apply remove_cover; assumption.
             - intros D HD HDc.
               assert (L : (length C <= length (d :: D))%nat).
               { apply HM.
                 - intros z [<-|Hz]; [exact Ed | apply Hyn_incl, HD, Hz].
                 - intros z Hz. destruct (box_leb z d) eqn:Ezd.
                   + exists d. split; [left; reflexivity | apply box_leb_true, Ezd].
                   + destruct (HDc z) as [c1 [Hc1 Hle1]].
                     { apply filter_In. split; [exact Hz | rewrite Ezd; reflexivity]. }
                     exists c1. split; [right; exact Hc1 | exact Hle1]. }
               cbn [length] in L. lia. }
           destruct (LK C' HC') as [cl [Hcl Hs]]; [lia|].
           assert (HinL : In (union cl [d]) (map (fun c => union c [d]) Fl)).
           { apply in_map_iff. exists cl. split; [reflexivity | exact Hcl]. }
           assert (HsC : same_set C (union cl [d])).
           { apply same_set_union_remove; [exact Hd | apply same_set_sym, Hs]. }
           apply merge_has_l.
           ++ exists (union cl [d]). split; assumption.
           ++ intros l0 r0 Hl0 Hr0. apply in_map_iff in Hl0. destruct Hl0 as [c0 [<- Hc0]].
              rewrite (union_single_length c0 d (Ld_notin c0 Hc0)).
              rewrite (LS2 c0 cl Hc0 Hcl).
              rewrite <- (same_set_NoDup_length C' cl
                            (mincover_NoDup _ _ _ HC') (LN cl Hcl) Hs).
              destruct (Rcover r0 Hr0) as [Ri Rc]. pose proof (HM r0 Ri Rc). lia.
        -- (* C does not use d: it is a minimum cover of the right node *)
           assert (HCr : mincover x ynew C).
           { split; [|split].
             - intros z Hz. apply diff_In. split; [apply HI, Hz|].
               intros [E | [] ]. apply Hd. rewrite E. exact Hz.
             - exact HCov.
             - intros D HD HDc. apply HM; [|exact HDc]. intros z Hz. apply Hyn_incl, HD, Hz. }
           assert (Hul : (npc + length C <= ul)%nat).
           { destruct LU as [->|[C0 [A [B D]]]]; [exact Hle|].
             assert (L : (length C <= length (d :: C0))%nat).
             { apply HM.
               - intros z [<-|Hz]; [exact Ed | apply Hyn_incl, A, Hz].
               - intros z Hz. destruct (box_leb z d) eqn:Ezd.
                 + exists d. split; [left; reflexivity | apply box_leb_true, Ezd].
                 + destruct (B z) as [c1 [Hc1 Hle1]].
                   { apply filter_In. split; [exact Hz | rewrite Ezd; reflexivity]. }
                   exists c1. split; [right; exact Hc1 | exact Hle1]. }
             cbn [length] in L. lia. }
           destruct (RK C HCr Hul) as [cr [Hcr Hs]].
           apply merge_has_r.
           ++ exists cr. split; assumption.
           ++ intros l0 r0 Hl0 Hr0. apply in_map_iff in Hl0. destruct Hl0 as [c0 [<- Hc0]].
              rewrite (RS2 r0 cr Hr0 Hcr).
              rewrite <- (same_set_NoDup_length C cr HCN (RN cr Hcr) Hs).
              destruct (Ld_cover c0 Hc0) as [Li Lc]. apply (HM _ Li Lc).
Qed.

(* the part of _cyclic_core_fixpoint_recursive after the core has been
   solved, as in CoverEnum.ccfr *)
Definition wrap (X Y xt yt yfl e y : list box) (cr : family * nat)
  : res (family * nat) :=
  match fst cr with
  | [] => ok ([], snd cr)
  | _ =>
      chk (if is_nil e then negb (is_nil y) else true) ;;
      chk covers_from (fst cr) yfl ;;
      let core := union_fam [] (map (fun c => union c e) (fst cr)) in
      chk allb (fun c => negb (is_nil c)) core ;;
      chk inclb yt yfl ;;
      chk inclb e yfl ;;
      chk are_covers xt core ;;
      chk covers_from core yt ;;
      chk uniform core ;;
      do fl <- from_floor core xt yfl ;;
      chk negb (is_nil fl) ;;
      chk are_covers xt fl ;;
      chk covers_from fl yfl ;;
      chk uniform fl ;;
      do mc <- from_unfloor fl Y ;;
      chk negb (is_nil mc) ;;
      chk are_covers X mc ;;
      chk covers_from mc Y ;;
      chk uniform mc ;;
      ok (mc, snd cr)
  end.

Lemma wrap_exact X Y pc ub cr F u :
  below_top rs X -> above_bot rs Y ->
  let xt := max_ceilings rs X Y in
  let yt := max_floors rs xt Y in
  let yfl := dedup (map (floor rs xt) Y) in
  let e := inter xt yt in
  let x := diff xt e in
  let y := diff yt e in
  let npc := (pc + length e)%nat in
  wrap X Y xt yt yfl e y cr = inl (F, u) ->
  post x y npc ub (fst cr) (snd cr) ->
  post X Y pc ub F u.
Proof.
  intros HX HY xt yt yfl e x y npc H [CN [CU CK]].
  destruct cr as [Fc uc]. cbn [fst snd] in *.
  (* the upper bound *)
  assert (UU : uc = ub \/ exists C0, incl C0 Y /\ cov C0 X /\ (pc + length C0 <= uc)%nat).
  { destruct CU as [->|[C0 [A [B D]]]]; [left; reflexivity|]. right.
    destruct (step_up_cover rs X Y HX HY C0 A B) as [C' [A' [B' D']]].
    exists C'. split; [exact A'|]. split; [exact B'|]. unfold npc in D. fold xt yt e in D'. lia. }
  (* a minimum cover of (X, Y) within the bound is found in the core *)
  assert (Down : forall C, mincover X Y C -> (pc + length C <= ub)%nat ->
     mincover xt yfl (map (floor rs xt) C) /\
     exists Cm C4,
       Forall2 (fun z m => box_le z m) (map (floor rs xt) C) Cm /\
       mincover xt yt Cm /\ incl e Cm /\
       In C4 Fc /\ same_set (diff Cm e) C4).
  { intros C HC Hle.
    destruct (step_down rs X Y HX HY C HC) as [HCf [Cm [HF [HCm [He [Hd Hlen]]]]]].
    split; [exact HCf|].
    destruct (CK (diff Cm e) Hd) as [C4 [HC4 Hs]].
    { unfold npc. fold xt yt e in Hlen. lia. }
    exists Cm, C4. repeat (split; [assumption|]). exact Hs. }
  unfold wrap in H. cbn [fst snd] in H.
  destruct Fc as [|c0 cs] eqn:EF.
  - inversion H; subst F u. split; [intros c []|]. split; [exact UU|].
    intros C HC Hle. destruct (Down C HC Hle) as [_ [Cm [C4 [_ [_ [_ [[] _]]]]]]].
  - rewrite <- EF in *. clear EF c0 cs.
    apply check_inl in H. destruct H as [_ H].
    apply check_inl in H. destruct H as [_ H]. cbv zeta in H.
    set (core := union_fam [] (map (fun c => union c e) Fc)) in *.
    do 6 (apply check_inl in H; destruct H as [_ H]).
    apply bind_inl in H. destruct H as [fl [Hfl H]].
    do 4 (apply check_inl in H; destruct H as [_ H]).
    apply bind_inl in H. destruct H as [mc [Hmc H]].
    do 4 (apply check_inl in H; destruct H as [_ H]).
    inversion H; subst F u. clear H.
    split; [apply (from_unfloor_nodup fl Y mc Hmc)|]. split; [exact UU|].
    intros C HC Hle.
    destruct (Down C HC Hle) as [HCf [Cm [C4 [HF [HCm [He [HC4 Hs4]]]]]]].
    set (Cf := map (floor rs xt) C) in *.
    pose proof (mincover_NoDup _ _ _ HC) as HCN.
    pose proof (mincover_NoDup _ _ _ HCf) as HCfN.
    pose proof (mincover_NoDup _ _ _ HCm) as HCmN.
    destruct HC as [HI [HCov HM]].
    destruct HCf as [HCfI [HCfC _]]. destruct HCm as [HCmI [HCmC _]].
    (* the member of core that is Cm as a set *)
    assert (Hcore : has core (union C4 e)).
    { apply union_fam_has_r. apply in_map_iff. exists C4. split; [reflexivity | exact HC4]. }
    destruct Hcore as [c1 [Hc1 Hs1]].
    assert (Hc1N : NoDup c1).
    { destruct (union_fam_In _ _ _ Hc1) as [[]|Hin]. apply in_map_iff in Hin.
      destruct Hin as [c' [<- Hc']]. apply union_NoDup; [apply CN, Hc'|].
      apply (step_e_NoDup rs X Y). }
    assert (HsCm : same_set Cm c1).
    { apply same_set_trans with (union C4 e); [|exact Hs1]. split; intros b Hb.
      - apply union_In. destruct (in_dec box_eq_dec b e) as [Hbe|Hbe]; [right; exact Hbe|].
        left. apply (proj1 Hs4). apply diff_In. split; assumption.
      - apply union_In in Hb. destruct Hb as [Hb|Hb]; [|apply He, Hb].
        apply (proj2 Hs4) in Hb. apply diff_In in Hb. apply Hb. }
    assert (Hperm : Permutation Cm c1).
    { apply NoDup_Permutation; [exact HCmN | exact Hc1N|]. intros b. split.
      - apply (proj1 HsCm).
      - apply (proj2 HsCm). }
    destruct (Permutation_Forall2 Hperm (Forall2_flip' _ _ _ HF)) as [zs [HpZ HFz]].
    assert (HzsCf : forall z, In z zs -> In z Cf).
    { intros z Hz. apply (Permutation_in z (Permutation_sym HpZ) Hz). }
    assert (HFz' : Forall2 (fun m z => In z yfl /\ box_le z m) c1 zs).
    { apply Forall2_strengthen_r; [exact HFz|]. intros z Hz. apply HCfI, HzsCf, Hz. }
    assert (Hzs_cov : cov zs xt).
    { intros p Hp. destruct (HCfC p Hp) as [c [Hc Hle']]. exists c.
      split; [apply (Permutation_in c HpZ Hc) | exact Hle']. }
    assert (Hc1A : antichain c1).
    { apply (antichain_incl yt); [|apply (step_yt_antichain rs X Y)].
      intros b Hb. apply HCmI. apply (proj2 HsCm), Hb. }
    destruct (from_floor_complete core xt yfl fl c1 zs Hfl Hc1 Hc1N Hc1A HFz' Hzs_cov)
      as [cf [Hcf Hscf]].
    (* back to Y *)
    destruct (Forall2_exists (fun f c => In c C /\ floor rs xt c = f) cf) as [cs HFc].
    { intros f Hf. apply (proj2 Hscf) in Hf. apply HzsCf in Hf. unfold Cf in Hf.
      apply in_map_iff in Hf. destruct Hf as [c [Ec Hc]]. exists c. split; assumption. }
    assert (HFc' : Forall2 (fun f c => In c Y /\ box_le f c) cf cs).
    { apply (Forall2_imp (fun f c => In c C /\ floor rs xt c = f)); [|exact HFc].
      intros f c [Hc <-]. split; [apply HI, Hc|].
      apply (step_floor_le rs X Y HX HY c (HI c Hc)). }
    apply (has_same mc C cs); [|apply (from_unfloor_complete fl Y mc cf cs Hmc Hcf HFc')].
    split; intros c Hc.
    + assert (Hfc : In (floor rs xt c) cf).
      { apply (proj1 Hscf). apply (Permutation_in _ HpZ). unfold Cf. apply in_map, Hc. }
      destruct (Forall2_In_l _ _ _ _ HFc Hfc) as [c' [Hc' [Hc'C Efl]]].
      rewrite <- (NoDup_map_inj (floor rs xt) C c' c HCfN Hc'C Hc Efl). exact Hc'.
    + destruct (Forall2_In_r _ _ _ _ HFc Hc) as [f [_ [HcC _]]]. exact HcC.
Qed.

(* _cyclic_core_fixpoint_recursive *)
Theorem ccfr_exact fuel : spec (ccfr rs pick fuel).
Proof.
  induction fuel as [|n IH]; intros X Y pc ub F u H HX HY HA; [discriminate|].
  split; [|apply sound_facts, (ccfr_result rs pick (S n) X Y pc ub F u H)].
  cbn [ccfr] in H. apply check_inl in H. destruct H as [_ H]. cbv zeta in H.
  apply bind_inl in H. destruct H as [cr [Hcore H]].
  apply (wrap_exact X Y pc ub cr F u HX HY); [exact H|]. clear H.
  pose proof (step_x_below_top rs X Y HX) as Hx.
  pose proof (step_y_above_bot rs X Y HX) as Hy.
  pose proof (step_y_antichain rs X Y) as Hya.
  destruct cr as [Fc uc]. cbn [fst snd].
  match type of Hcore with
  | (if ?c then _ else _) = _ => destruct c
  end.
  - apply (trav_exact (ccfr rs pick n) _ _ _ _ Fc uc IH Hcore Hx Hy Hya).
  - apply (IH _ _ _ _ _ _ Hcore Hx Hy Hya).
Qed.
End Exact.

(* ------------------------------------------------------------ cover_enum.minimize *)
Theorem enum_xy_exact rs pick X Y R :
  (forall s b, pick s = Some b -> In b s) ->
  enum_xy rs pick X Y = inl R ->
  below_top rs X -> above_bot rs Y -> antichain Y ->
  fam_nodup R /\
  forall C, mincover X Y C -> has R C.
Proof.
  intros Hpick H HX HY HA. unfold enum_xy in H.
  destruct (some_cover pick _ X Y) as [c0|] eqn:Ec; [|discriminate].
  apply bind_inl in H. destruct H as [[F u] [Hc H]].
  apply check_inl in H. destruct H as [_ H]. inversion H; subst R. cbn [fst].
  destruct (ccfr_exact rs pick Hpick _ _ _ _ _ _ _ Hc HX HY HA) as [[PN [_ PK]] _].
  split; [exact PN|]. intros C HC. apply PK; [exact HC|].
  destruct (some_cover_sound pick Hpick _ _ _ _ Ec) as [A B].
  destruct HC as [_ [_ HM]]. cbn. apply HM; assumption.
Qed.

(* C10: whenever the model of cover_enum.minimize returns, the result is
   exactly the set of all minimum covers of f by primes of f \/ ~care *)
Theorem enum_exact rs pick f care R :
  (forall s b, pick s = Some b -> In b s) ->
  enum_minimize rs pick f care = inl R ->
  all_min_prime_covers rs f care R.
Proof.
  intros Hpick H.
  destruct (enum_sound rs pick f care R H) as [Hne [Hpc Huni]].
  unfold enum_minimize in H.
  destruct (enum_xy_exact rs pick _ _ R Hpick H (embed_below_top rs f)
              (primes_above_bot rs f care) (primes_antichain rs f care)) as [HN HK].
  (* minimum prime covers are minimum covers of the covering problem *)
  assert (MC : forall K, min_prime_cover rs f care K ->
                 mincover (embed rs f) (primes rs f care) K).
  { intros K [_ [HP HM]]. destruct (prime_cover_cov rs f care K HP) as [A B].
    split; [exact A|]. split; [exact B|]. intros C' HC' Hcov'. apply HM.
    split.
    - intros b Hb. apply primes_In, HC', Hb.
    - intros p Hr Hf.
      destruct (Hcov' (map (fun x => (x, x)) p)) as [k [Hk1 Hk2]].
      { apply embed_In. exists p. tauto. }
      exists k. split; [exact Hk1 | apply singleton_le_contains, Hk2]. }
  split.
  - (* every member is a minimum cover *)
    intros K HKR.
    destruct (min_cover_ref_total rs f care) as [K0 [_ HK0]].
    destruct (HK K0 (MC K0 HK0)) as [K1 [HK1 Hs]].
    split; [apply HN, HKR|]. split; [apply Hpc, HKR|].
    intros K' HK'. rewrite (Huni K K1 HKR HK1).
    destruct HK0 as [HK0N [_ HK0M]].
    rewrite <- (same_set_NoDup_length K0 K1 HK0N (HN K1 HK1) Hs). apply HK0M, HK'.
  - (* every minimum cover is a member, up to order *)
    intros K HKm. apply (HK K (MC K HKm)).
Qed.
