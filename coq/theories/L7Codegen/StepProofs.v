(* L7 / StepProofs: step_correct — composing C14 (functions_realize), the
   emission theorem (straightline_correct) and int_bits_roundtrip: for every
   relation, layout of variables, requested outputs, iteration order and
   `restrict` meeting its contract, and every state of representable values
   at which some output satisfies the relation, the generated step returns an
   assignment to exactly the requested output variables that satisfies the
   relation together with the state. *)
From Coq Require Import List Bool Arith ZArith Lia.
Import ListNotations.
From Omega Require Import L7Codegen.Pred L7Codegen.PredFacts L7Codegen.Synth
  L7Codegen.SynthProofs L7Codegen.Bits L7Codegen.BitsProofs L7Codegen.Dag
  L7Codegen.DagProofs L7Codegen.Step.

(* --- writing and reading bits ---------------------------------------------- *)
Lemma write_bits_length : forall ps a bits, length (write_bits a ps bits) = length a.
Proof.
  induction ps as [|p ps IH]; intros a bits; cbn [write_bits]; [reflexivity|].
  destruct bits; [reflexivity|]. rewrite IH. apply upd_length.
Qed.

Lemma get_write_other : forall ps a bits p,
  ~ In p ps -> get (write_bits a ps bits) p = get a p.
Proof.
  induction ps as [|q ps IH]; intros a bits p H; cbn [write_bits]; [reflexivity|].
  destruct bits; [reflexivity|]. rewrite IH by (intro; apply H; right; assumption).
  apply get_upd_other. intro; apply H; left; assumption.
Qed.

Lemma read_write : forall ps a bits,
  NoDup ps -> (forall p, In p ps -> p < length a) -> length ps <= length bits ->
  read_bits (write_bits a ps bits) ps = firstn (length ps) bits.
Proof.
  induction ps as [|p ps IH]; intros a bits ND Lt Len; [reflexivity|].
  destruct bits as [|b bits]; [cbn in Len; lia|].
  inversion ND as [|? ? Hp ND']; subst. cbn [write_bits read_bits map length firstn].
  f_equal.
  - rewrite get_write_other by exact Hp. apply get_upd_same. apply Lt. left. reflexivity.
  - apply IH; [exact ND'| |cbn in Len; lia].
    intros q Hq. rewrite upd_length. apply Lt. right. exact Hq.
Qed.

Lemma read_bits_ext a b ps :
  (forall p, In p ps -> get a p = get b p) -> read_bits a ps = read_bits b ps.
Proof. intro H. apply map_ext_in. exact H. Qed.

Lemma get_repeat_false n p : get (repeat false n) p = false.
Proof.
  unfold get. revert p. induction n as [|n IH]; intros [|p]; cbn; auto.
Qed.

Lemma int_to_bits_length z w : (Z.to_nat w <= length (int_to_bits z w))%nat.
Proof.
  unfold int_to_bits. cbv zeta. rewrite bits_of_length.
  generalize (bit_length (if (0 <=? z)%Z then z
                          else (2 ^ Z.max (Z.max w (bit_length z)) 1 + z)%Z)).
  generalize (bit_length z). intros. lia.
Qed.

Lemma encode_length t v : representable t v -> (nbits t <= length (encode t v))%nat.
Proof.
  destruct t, v; cbn [representable]; try tauto; intros _; cbn [nbits encode].
  - cbn. lia.
  - apply int_to_bits_length.
Qed.

(* --- layouts ------------------------------------------------------------------ *)
Section StepCorrect.
Variable n : nat.
Variable restrict : var -> pred -> pred -> pred.
Hypothesis Hagree : restrict_agrees n restrict.
Hypothesis Hsupp : restrict_support n restrict.
Variable ly : layout.
Variable out_vars : list nat.
Variable r : pred.
Variable order : list (var * list var).

(* every variable has as many bits as its type needs, at distinct positions
   among the n declared bits; bits of different variables are different *)
Definition layout_ok : Prop :=
  (forall x, x < length ly ->
     NoDup (var_bits ly x) /\ (forall p, In p (var_bits ly x) -> p < n) /\
     length (var_bits ly x) = nbits (var_type ly x)) /\
  (forall x x' p, x < length ly -> x' < length ly ->
     In p (var_bits ly x) -> In p (var_bits ly x') -> x = x').

(* the state assigns representable values to distinct variables, none of
   which is a requested output *)
Definition state_ok (state : list (nat * Bits.val)) : Prop :=
  NoDup (map fst state) /\
  forall x v, In (x, v) state ->
    x < length ly /\ representable (var_type ly x) v /\ ~ In x out_vars.

Hypothesis LY : layout_ok.
Hypothesis OV : forall x, In x out_vars -> x < length ly.

Local Notation vrs := (list_bits ly out_vars).
Local Notation fs := (functions n restrict ly out_vars r order).

Lemma assign_fold_length : forall state a0,
  length (fold_left (fun a xv => write_bits a (var_bits ly (fst xv))
             (encode (var_type ly (fst xv)) (snd xv))) state a0) = length a0.
Proof.
  induction state as [|xv state IH]; intro a0; cbn [fold_left]; [reflexivity|].
  rewrite IH. apply write_bits_length.
Qed.

Lemma assign_length state : length (assign_bitvectors n ly state) = n.
Proof. unfold assign_bitvectors. rewrite assign_fold_length. apply repeat_length. Qed.

(* positions that no variable of the state owns keep their value *)
Lemma assign_fold_other : forall state a0 p,
  (forall xv, In xv state -> ~ In p (var_bits ly (fst xv))) ->
  get (fold_left (fun a xv => write_bits a (var_bits ly (fst xv))
         (encode (var_type ly (fst xv)) (snd xv))) state a0) p = get a0 p.
Proof.
  induction state as [|xv state IH]; intros a0 p H; cbn [fold_left]; [reflexivity|].
  rewrite IH by (intros; apply H; right; assumption).
  apply get_write_other. apply H. left. reflexivity.
Qed.

Lemma assign_fold_read : forall state a0 x v,
  length a0 = n -> state_ok state -> In (x, v) state ->
  read_bits (fold_left (fun a xv => write_bits a (var_bits ly (fst xv))
         (encode (var_type ly (fst xv)) (snd xv))) state a0) (var_bits ly x)
  = firstn (nbits (var_type ly x)) (encode (var_type ly x) v).
Proof.
  induction state as [|[x0 v0] state IH]; intros a0 x v La [ND SO] Hin; [destruct Hin|].
  cbn [fold_left fst snd]. cbn [map fst] in ND. inversion ND as [|? ? Hx0 ND']; subst.
  destruct Hin as [E|Hin].
  - injection E as -> ->.
    destruct (SO x v (or_introl eq_refl)) as (Lx & Rx & _).
    destruct (proj1 LY x Lx) as (NDx & Ltx & Lenx).
    rewrite (read_bits_ext _ (write_bits a0 (var_bits ly x) (encode (var_type ly x) v))).
    + rewrite read_write.
      * f_equal. exact Lenx.
      * exact NDx.
      * intros p Hp. rewrite La. apply Ltx, Hp.
      * apply Nat.le_trans with (nbits (var_type ly x)); [apply Nat.eq_le_incl, Lenx|apply encode_length, Rx].
    + intros p Hp. apply assign_fold_other. intros [x' v'] Hxv Hp'. cbn [fst] in Hp'.
      destruct (SO x' v' (or_intror Hxv)) as (Lx' & _ & _).
      assert (x = x') by (apply (proj2 LY x x' p); assumption). subst x'.
      apply Hx0. apply in_map_iff. exists (x, v'). auto.
  - apply IH; [rewrite write_bits_length; exact La| |exact Hin].
    split; [exact ND'|]. intros x' v' H'. apply SO. right. exact H'.
Qed.

(* --- the functions' values in the assignment ------------------------------------ *)
Lemma get_app_from : forall (gs : list (var * (pred * pred))) a b y,
  NoDup (map fst gs) -> y < length b ->
  get (app_from gs a b) y
  = match find (fun e => Nat.eqb (fst e) y) gs with
    | Some e => fst (snd e) a
    | None => get b y
    end.
Proof.
  induction gs as [|e gs IH]; intros a b y ND Ly; [reflexivity|].
  cbn [map] in ND. inversion ND as [|? ? He ND']; subst.
  change (app_from (e :: gs) a b) with (app_from gs a (upd b (fst e) (fst (snd e) a))).
  cbn [find].
  match goal with |- context [if ?c then _ else _] => destruct c eqn:E end.
  - apply Nat.eqb_eq in E. subst y. rewrite app_from_upd by exact He.
    apply get_upd_same. destruct (app_from_agree gs a b) as [Lab _]. rewrite Lab. exact Ly.
  - apply Nat.eqb_neq in E. rewrite IH by (try rewrite upd_length; assumption).
    match goal with |- context [match ?c with Some _ => _ | None => _ end] => destruct c end;
      [reflexivity|].
    apply get_upd_other. exact E.
Qed.

Lemma find_bit_compute (gs : list (var * (pred * pred))) a p :
  find_bit (compute_bdds gs a) p
  = match find (fun e => Nat.eqb (fst e) p) gs with
    | Some e => fst (snd e) a
    | None => false
    end.
Proof.
  unfold find_bit, compute_bdds. induction gs as [|e gs IH]; [reflexivity|].
  cbn [map find fst snd]. unfold var, pred, asg in *.
  destruct (Nat.eqb (fst e) p) eqn:E; [reflexivity|exact IH].
Qed.

Theorem step_correct state :
  order_ok n r vrs order ->
  state_ok state ->
  let a := assign_bitvectors n ly state in
  (exists b, agree_out vrs a b /\ r b = true) ->
  let a' := apply_functions fs a in
  (* the completed bit assignment satisfies the relation, *)
  r a' = true /\
  (* it encodes the given state, *)
  (forall x v, In (x, v) state ->
     decode (var_type ly x) (read_bits a' (var_bits ly x)) = v) /\
  (* and the returned assignment is over exactly the requested outputs and
     decodes the output bits of that assignment *)
  step n restrict ly out_vars r order state
  = map (fun x => (x, decode (var_type ly x) (read_bits a' (var_bits ly x)))) out_vars.
Proof.
  intros OO SO a Solv a'.
  assert (La : length a = n) by apply assign_length.
  assert (Keys : map fst fs = map fst order) by apply make_loop_keys.
  assert (KND : NoDup (map fst fs)) by (rewrite Keys; apply OO).
  assert (Kin : forall y, In y (map fst fs) -> In y vrs).
  { intros y Hy. rewrite Keys in Hy. apply (proj2 OO) in Hy. tauto. }
  assert (Out0 : forall x p, In x out_vars -> In p (var_bits ly x) -> get a p = false).
  { intros x p Hx Hp. unfold a, assign_bitvectors. rewrite assign_fold_other.
    - apply get_repeat_false.
    - intros [x' v'] Hxv Hp'. cbn [fst] in Hp'.
      destruct (proj2 SO x' v' Hxv) as (Lx' & _ & Nx').
      assert (x = x') by (apply (proj2 LY x x' p); auto). subst. contradiction. }
  split; [|split].
  - apply (functions_realize n restrict Hagree Hsupp); assumption.
  - intros x v Hxv.
    destruct (proj2 SO x v Hxv) as (Lx & Rx & Nx).
    replace (read_bits a' (var_bits ly x)) with (read_bits a (var_bits ly x)).
    + unfold a, assign_bitvectors. rewrite (assign_fold_read state _ x v); auto.
      * apply int_bits_roundtrip, Rx.
      * apply repeat_length.
    + apply read_bits_ext. intros p Hp. symmetry.
      destruct (app_from_agree fs a a) as [_ Ag]. apply Ag.
      intro Hk. apply Kin in Hk. unfold list_bits in Hk. apply in_flat_map in Hk.
      destruct Hk as [x' [Hx' Hp']].
      assert (x = x') by (apply (proj2 LY x x' p); auto). subst. contradiction.
  - unfold step, step_with, out_bits_to_ints. apply map_ext_in. intros x Hx. f_equal. f_equal.
    unfold read_bits. apply map_ext_in. intros p Hp.
    fold a. unfold a'. rewrite apply_functions_app_from.
    destruct (proj1 LY x (OV x Hx)) as (_ & Ltx & _).
    rewrite get_app_from by (try rewrite La; auto).
    rewrite find_bit_compute.
    match goal with |- context [match ?c with Some _ => _ | None => _ end] => destruct c end;
      [reflexivity|].
    symmetry. apply (Out0 x p Hx Hp).
Qed.

(* the same through the emitted program: if the references in [roots] denote
   the functions, the generated step executes without error and returns the
   same assignment *)
Theorem step_prog_correct (d : dag) (nlev : nat) (keys : list Z) state :
  wf_dag d nlev = true ->
  (forall k, In k keys -> root_ok_p d nlev k) ->
  (forall a, Forall2 (fun k e => ref_val (S nlev) d a k = fst (snd e) a) keys fs) ->
  step_prog n ly out_vars nlev d (combine (map fst fs) keys) state
  = Some (step n restrict ly out_vars r order state).
Proof.
  intros WF RO Den. unfold step_prog, step_prog_with, step, step_with.
  set (a := assign_bitvectors n ly state).
  rewrite (straightline_correct d nlev WF a).
  - f_equal. f_equal. unfold compute_bdds, DagProofs.val. specialize (Den a). clear RO.
    induction Den as [|k e ks gs Hke _ IH]; [reflexivity|].
    cbn [map combine fst snd]. rewrite Hke. f_equal. exact IH.
  - intros [y k] Hr. apply in_combine_r in Hr. apply RO, Hr.
Qed.

End StepCorrect.
